package keeper_test

// Demonstration for C06 finding F7 (run inside x/cctp/keeper of noble-cctp): the DepositForBurn event of a
// replacement must name the same burn token as the DepositForBurn event of the original deposit.

import (
	"testing"

	"cosmossdk.io/math"
	abci "github.com/cometbft/cometbft/abci/types"
	keepertest "github.com/circlefin/noble-cctp/testutil/keeper"
	"github.com/circlefin/noble-cctp/testutil/sample"
	"github.com/circlefin/noble-cctp/x/cctp/keeper"
	"github.com/circlefin/noble-cctp/x/cctp/types"
	sdk "github.com/cosmos/cosmos-sdk/types"
)

func f7Attr(ctx sdk.Context, evType, key string) []string {
	var out []string
	for _, ev := range ctx.EventManager().Events() {
		if ev.Type != evType {
			continue
		}
		for _, a := range ev.Attributes {
			if a.Key == key {
				out = append(out, a.Value)
			}
		}
	}
	return out
}

func f7Run(t *testing.T, denom string) {
	k, goCtx := keepertest.CctpKeeper()
	ctx := sdk.UnwrapSDKContext(goCtx)
	server := keeper.NewMsgServerImpl(k)
	k.SetRemoteTokenMessenger(ctx, types.RemoteTokenMessenger{DomainId: 0, Address: []byte("messenger01234567890123456789012")})
	k.SetBurningAndMintingPaused(ctx, types.BurningAndMintingPaused{Paused: false})
	k.SetSendingAndReceivingMessagesPaused(ctx, types.SendingAndReceivingMessagesPaused{Paused: false})
	depositor := sample.AccAddress()
	if _, err := server.DepositForBurn(ctx, &types.MsgDepositForBurn{
		From: depositor, Amount: math.NewInt(5), DestinationDomain: 0,
		MintRecipient: []byte("12345678901234567890123456789012"), BurnToken: denom,
	}); err != nil {
		t.Fatalf("deposit failed: %v", err)
	}
	// the message the deposit emitted, attested by the current attester set
	var sent types.MessageSent
	for _, ev := range ctx.EventManager().Events() {
		if ev.Type == "circle.cctp.v1.MessageSent" {
			m, err := sdk.ParseTypedEvent(abci.Event(ev))
			if err != nil {
				t.Fatal(err)
			}
			sent = *m.(*types.MessageSent)
		}
	}
	privKeys := generateNPrivateKeys(2)
	for _, a := range getAttestersFromPrivateKeys(privKeys) {
		k.SetAttester(ctx, a)
	}
	k.SetSignatureThreshold(ctx, types.SignatureThreshold{Amount: 2})
	if _, err := server.ReplaceDepositForBurn(ctx, &types.MsgReplaceDepositForBurn{
		From: depositor, OriginalMessage: sent.Message, OriginalAttestation: generateAttestation(sent.Message, privKeys),
		NewDestinationCaller: make([]byte, 32), NewMintRecipient: []byte("new mint recipient90123456789012"),
	}); err != nil {
		t.Fatalf("replacement failed: %v", err)
	}
	tokens := f7Attr(ctx, "circle.cctp.v1.DepositForBurn", "burn_token")
	if len(tokens) != 2 {
		t.Fatalf("expected two DepositForBurn events, got %d", len(tokens))
	}
	if tokens[0] != tokens[1] {
		t.Fatalf("deposit event names burn token %s, its replacement names %s", tokens[0], tokens[1])
	}
}

func TestF7ReplacementEventNamesTheSameBurnToken(t *testing.T)          { f7Run(t, "uusdc") }
func TestF7ReplacementEventNamesTheSameBurnTokenMixedCase(t *testing.T) { f7Run(t, "uUSDC") }
