package keeper_test

import (
	"testing"

	"github.com/circlefin/noble-cctp/x/cctp/keeper"
	"github.com/circlefin/noble-cctp/x/cctp/types"
)

func TestF6ThresholdOverflowPanics(t *testing.T) {
	defer func() {
		if r := recover(); r != nil {
			t.Fatalf("VerifyAttestationSignatures panicked: %v", r)
		}
	}()
	err := keeper.VerifyAttestationSignatures([]byte("m"), make([]byte, 4), []types.Attester{{Attester: "0x04"}}, 66076420)
	if err == nil {
		t.Fatal("accepted")
	}
}
