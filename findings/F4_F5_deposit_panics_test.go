package keeper_test

// Demonstrations for C20 findings F4 and F5 (run inside x/cctp/keeper of noble-cctp).

import (
	"testing"

	"cosmossdk.io/math"
	keepertest "github.com/circlefin/noble-cctp/testutil/keeper"
	"github.com/circlefin/noble-cctp/testutil/sample"
	"github.com/circlefin/noble-cctp/x/cctp/keeper"
	"github.com/circlefin/noble-cctp/x/cctp/types"
)

// F4: a MsgDepositForBurn decoded from the wire without an amount carries the zero math.Int (nil big.Int).
func TestF4AbsentAmountMustNotPanic(t *testing.T) {
	k, ctx := keepertest.CctpKeeper()
	server := keeper.NewMsgServerImpl(k)
	defer func() {
		if r := recover(); r != nil {
			t.Fatalf("DepositForBurn panicked on an absent amount: %v", r)
		}
	}()
	_, err := server.DepositForBurn(ctx, &types.MsgDepositForBurn{
		From: sample.AccAddress(), DestinationDomain: 0,
		MintRecipient: []byte("12345678901234567890123456789012"), BurnToken: "uusdc",
	})
	if err == nil {
		t.Fatal("accepted a deposit without an amount")
	}
}

// F5: "uuſdc" (LATIN SMALL LETTER LONG S) case-folds to the minting denom "uusdc" but is not a valid denom.
func TestF5FoldEqualInvalidDenomMustNotPanic(t *testing.T) {
	k, ctx := keepertest.CctpKeeper()
	server := keeper.NewMsgServerImpl(k)
	k.SetRemoteTokenMessenger(ctx, types.RemoteTokenMessenger{DomainId: 0, Address: make([]byte, 32)})
	defer func() {
		if r := recover(); r != nil {
			t.Fatalf("DepositForBurn panicked on a fold-equal invalid denom: %v", r)
		}
	}()
	_, err := server.DepositForBurn(ctx, &types.MsgDepositForBurn{
		From: sample.AccAddress(), Amount: math.NewInt(5), DestinationDomain: 0,
		MintRecipient: []byte("12345678901234567890123456789012"), BurnToken: "uuſdc",
	})
	if err == nil {
		t.Fatal("accepted an invalid denom")
	}
}
