package cctp_test

// Demonstration for C17 finding F2 (run inside x/cctp of noble-cctp): the pending-owner slot has no genesis
// field, so an ownership transfer that is in flight is lost by export followed by import.

import (
	"testing"

	keepertest "github.com/circlefin/noble-cctp/testutil/keeper"
	"github.com/circlefin/noble-cctp/testutil/sample"
	"github.com/circlefin/noble-cctp/x/cctp"
	"github.com/circlefin/noble-cctp/x/cctp/keeper"
	"github.com/circlefin/noble-cctp/x/cctp/types"
)

func TestF2PendingOwnerSurvivesExportImport(t *testing.T) {
	k, ctx := keepertest.CctpKeeper()
	owner, next := sample.AccAddress(), sample.AccAddress()
	k.SetOwner(ctx, owner)
	k.SetAttesterManager(ctx, owner)
	k.SetPauser(ctx, owner)
	k.SetTokenController(ctx, owner)
	if _, err := keeper.NewMsgServerImpl(k).UpdateOwner(ctx, &types.MsgUpdateOwner{From: owner, NewOwner: next}); err != nil {
		t.Fatal(err)
	}
	exported := cctp.ExportGenesis(ctx, k)

	k2, ctx2 := keepertest.CctpKeeper()
	cctp.InitGenesis(ctx2, k2, *exported)
	got, found := k2.GetPendingOwner(ctx2)
	if !found || got != next {
		t.Fatalf("pending owner %q lost by export+import (found=%v, got %q)", next, found, got)
	}
}
