package cli

// Demonstration for C20 finding F3 (run inside x/cctp/client/cli of noble-cctp).

import "testing"

func TestF3ShortAddressMustNotPanic(t *testing.T) {
	for _, a := range []string{"", "a"} {
		func() {
			defer func() {
				if r := recover(); r != nil {
					t.Fatalf("parseAddress(%q) panicked: %v", a, r)
				}
			}()
			_, _ = parseAddress(a)
		}()
	}
}
