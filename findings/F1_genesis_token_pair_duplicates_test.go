package types_test

// Demonstration for C17 finding F1 (run inside x/cctp/types of noble-cctp).

import (
	"testing"

	"github.com/circlefin/noble-cctp/x/cctp/types"
)

func TestF1DuplicateTokenPairsMustBeRejected(t *testing.T) {
	g := types.DefaultGenesis()
	tok := make([]byte, 32)
	tok[31] = 7
	g.TokenPairList = []types.TokenPair{
		{RemoteDomain: 3, RemoteToken: tok, LocalToken: "uusdc"},
		{RemoteDomain: 3, RemoteToken: tok, LocalToken: "ueurc"},
	}
	if err := g.Validate(); err == nil {
		t.Fatal("Validate accepted two token pairs that occupy the same store key (the second silently overwrites the first)")
	}
}
