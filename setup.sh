#!/bin/sh
# Build the verifier from files on disk only (offline) and warm /repo's build cache.
set -e
cd "$(dirname "$0")"
export GOPROXY=off GOSUMDB=off GOTOOLCHAIN=local
mkdir -p bin evidence replays
(cd tool && GOFLAGS=-mod=mod go build -o ../bin/govc .)
(cd /repo && GOWORK=off GOFLAGS=-mod=readonly go build ./... )
# solver smoke test
echo '(check-sat)' | z3-new -in | grep -q sat
echo '(set-logic ALL)(check-sat)' | cvc5 --lang smt2 | grep -q sat
echo setup ok
