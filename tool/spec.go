package main

// Abstract module state `st`, its coupling to the raw KV store, and the SMT prelude
// (spec functions and the assumed axioms about library functions).

import (
	"fmt"
	"sort"
	"strings"
)

type Comp struct {
	Name     string
	KeySorts []string
	ValSort  string
}

var comps = []Comp{
	{"owner.set", nil, SBool}, {"owner.val", nil, SBytes},
	{"pendingOwner.set", nil, SBool}, {"pendingOwner.val", nil, SBytes},
	{"attesterManager.set", nil, SBool}, {"attesterManager.val", nil, SBytes},
	{"pauser.set", nil, SBool}, {"pauser.val", nil, SBytes},
	{"tokenController.set", nil, SBool}, {"tokenController.val", nil, SBytes},
	{"bmPaused.set", nil, SBool}, {"bmPaused.val", nil, SBool},
	{"srPaused.set", nil, SBool}, {"srPaused.val", nil, SBool},
	{"maxBody.set", nil, SBool}, {"maxBody.val", nil, SBV(64)},
	{"nextNonce.set", nil, SBool}, {"nextNonce.val", nil, SBV(64)}, {"nextNonce.dom", nil, SBV(32)},
	{"threshold.set", nil, SBool}, {"threshold.val", nil, SBV(32)},
	{"attesters.has", []string{SBytes}, SBool}, {"attesters.val", []string{SBytes}, SBytes},
	{"burnLimits.has", []string{SBytes}, SBool}, {"burnLimits.denom", []string{SBytes}, SBytes},
	{"burnLimits.nil", []string{SBytes}, SBool}, {"burnLimits.amt", []string{SBytes}, SBV(bigW)},
	{"tokenPairs.has", []string{SBV(32), SBytes}, SBool}, {"tokenPairs.local", []string{SBV(32), SBytes}, SBytes},
	{"tokenPairs.rdom", []string{SBV(32), SBytes}, SBV(32)}, {"tokenPairs.rtok", []string{SBV(32), SBytes}, SBytes},
	{"usedNonces.has", []string{SBV(32), SBV(64)}, SBool},
	{"usedNonces.dom", []string{SBV(32), SBV(64)}, SBV(32)}, {"usedNonces.nonce", []string{SBV(32), SBV(64)}, SBV(64)},
	{"messengers.has", []string{SBV(32)}, SBool}, {"messengers.addr", []string{SBV(32)}, SBytes}, {"messengers.dom", []string{SBV(32)}, SBV(32)},
	// ghost cardinal of the attester collection (number of raw keys under its prefix)
	{"nAtt", nil, SBV(64)},
	// the other collections as ordered lists (what GetAll* return; L3 only, their GetAll* contracts are trusted)
	{"nLimits", nil, SBV(64)}, {"limitList.Denom", []string{SBV(64)}, SBytes}, {"limitList.Amount.nil", []string{SBV(64)}, SBool}, {"limitList.Amount.v", []string{SBV(64)}, SBV(bigW)},
	{"nPairs", nil, SBV(64)}, {"pairList.RemoteDomain", []string{SBV(64)}, SBV(32)}, {"pairList.RemoteToken", []string{SBV(64)}, SBytes}, {"pairList.RemoteToken.isnil", []string{SBV(64)}, SBool}, {"pairList.LocalToken", []string{SBV(64)}, SBytes},
	{"nNonces", nil, SBV(64)}, {"nonceList.SourceDomain", []string{SBV(64)}, SBV(32)}, {"nonceList.Nonce", []string{SBV(64)}, SBV(64)},
	{"nMsgrs", nil, SBV(64)}, {"msgrList.DomainId", []string{SBV(64)}, SBV(32)}, {"msgrList.Address", []string{SBV(64)}, SBytes}, {"msgrList.Address.isnil", []string{SBV(64)}, SBool},
	// the attester collection as the ordered list its prefix range yields (Attester strings; "" beyond nAtt)
	{"attList", []string{SBV(64)}, SBytes},
}

// the four collections whose GetAll* list is a view of their prefix range
type listView struct{ Prefix, Type, Cnt, Comp string }

var listViews = map[string]listView{
	"limitList": {"PerMessageBurnLimit/value/", "PerMessageBurnLimit", "nLimits", "limitList"},
	"pairList":  {"TokenPair/value/", "TokenPair", "nPairs", "pairList"},
	"nonceList": {"UsedNonce/value/", "Nonce", "nNonces", "nonceList"},
	"msgrList":  {"RemoteTokenMessenger/value/", "RemoteTokenMessenger", "nMsgrs", "msgrList"},
}

var compByName = map[string]*Comp{}

func init() {
	for i := range comps {
		compByName[comps[i].Name] = &comps[i]
	}
}

func (c *Comp) arraySort() string {
	s := c.ValSort
	for i := len(c.KeySorts) - 1; i >= 0; i-- {
		s = SArray(c.KeySorts[i], s)
	}
	return s
}

func initAbs(st *State, tag string) {
	for _, c := range comps {
		st.abs[c.Name] = Var(tag+"."+c.Name, c.arraySort())
	}
	st.rawHas = Var(tag+".rawHas", SArray(SBytes, SBool))
	st.rawVal = Var(tag+".rawVal", SArray(SBytes, SBytes))
	st.cnt["Attester/value/"] = Var(tag+".cnt.Attester", SBV(64))
	st.ext = Var(tag+".ext", "Ext")
}

// ---- coupling: abstract component as a function of the raw store (L2)

var (
	kSlash = BytesConst("/")
)

func singletonKey(name string) *Term { return BytesConst(name + name) }

func attesterRawKey(k *Term) *Term { return Cat(BytesConst("Attester/value/"), Cat(k, kSlash)) }
func limitRawKey(k *Term) *Term    { return Cat(BytesConst("PerMessageBurnLimit/value/"), Cat(k, kSlash)) }
func be32(d *Term) *Term {
	arr := ZeroArr
	for i := 0; i < 4; i++ {
		arr = storeNZ(arr, uint64(i), Extract(31-8*i, 24-8*i, d))
	}
	return MkBytes(arr, BV(64, 4))
}
func be64(d *Term) *Term {
	arr := ZeroArr
	for i := 0; i < 8; i++ {
		arr = storeNZ(arr, uint64(i), Extract(63-8*i, 56-8*i, d))
	}
	return MkBytes(arr, BV(64, 8))
}
func keccak(b *Term) *Term { return App("keccak", SBytes, b) }
func tokenPairRawKey(d, t *Term) *Term {
	return Cat(BytesConst("TokenPair/value/"), Cat(keccak(Cat(be32(d), t)), kSlash))
}
func usedNonceRawKey(d, n *Term) *Term {
	return Cat(BytesConst("UsedNonce/value/"), Cat(Cat(be32(d), be64(n)), kSlash))
}
func messengerRawKey(d *Term) *Term {
	return Cat(BytesConst("RemoteTokenMessenger/value/"), Cat(be32(d), kSlash))
}

func dec(typ, field, sort string, raw *Term) *Term {
	return App("dec_"+typ+"_"+field, sort, raw)
}

// coupling returns the value of component name at keys, computed from the raw store of st.
func coupling(st *State, name string, keys []*Term) *Term {
	has := func(k *Term) *Term { return Select(st.rawHas, k) }
	val := func(k *Term) *Term { return Select(st.rawVal, k) }
	role := func(key string, which string) *Term {
		if which == "set" {
			return has(BytesConst(key))
		}
		return val(BytesConst(key))
	}
	parts := strings.SplitN(name, ".", 2)
	switch parts[0] {
	case "owner":
		return role("owner", parts[1])
	case "pendingOwner":
		return role("pending-owner", parts[1])
	case "attesterManager":
		return role("attester-manager", parts[1])
	case "pauser":
		return role("pauser", parts[1])
	case "tokenController":
		return role("token-controller", parts[1])
	case "bmPaused":
		k := singletonKey("BurningAndMintingPaused/value/")
		if parts[1] == "set" {
			return has(k)
		}
		return dec("BurningAndMintingPaused", "Paused", SBool, val(k))
	case "srPaused":
		k := singletonKey("SendingAndReceivingMessagesPaused/value/")
		if parts[1] == "set" {
			return has(k)
		}
		return dec("SendingAndReceivingMessagesPaused", "Paused", SBool, val(k))
	case "maxBody":
		k := singletonKey("MaxMessageBodySize/value/")
		if parts[1] == "set" {
			return has(k)
		}
		return dec("MaxMessageBodySize", "Amount", SBV(64), val(k))
	case "nextNonce":
		k := singletonKey("NextAvailableNonce/value/")
		switch parts[1] {
		case "set":
			return has(k)
		case "val":
			return dec("Nonce", "Nonce", SBV(64), val(k))
		}
		return dec("Nonce", "SourceDomain", SBV(32), val(k))
	case "threshold":
		k := singletonKey("SignatureThreshold/value/")
		if parts[1] == "set" {
			return has(k)
		}
		return dec("SignatureThreshold", "Amount", SBV(32), val(k))
	case "attesters":
		k := attesterRawKey(keys[0])
		if parts[1] == "has" {
			return has(k)
		}
		return dec("Attester", "Attester", SBytes, val(k))
	case "burnLimits":
		k := limitRawKey(keys[0])
		switch parts[1] {
		case "has":
			return has(k)
		case "denom":
			return dec("PerMessageBurnLimit", "Denom", SBytes, val(k))
		case "nil":
			return dec("PerMessageBurnLimit", "Amount.nil", SBool, val(k))
		}
		return dec("PerMessageBurnLimit", "Amount.v", SBV(bigW), val(k))
	case "tokenPairs":
		k := tokenPairRawKey(keys[0], keys[1])
		switch parts[1] {
		case "has":
			return has(k)
		case "local":
			return dec("TokenPair", "LocalToken", SBytes, val(k))
		case "rdom":
			return dec("TokenPair", "RemoteDomain", SBV(32), val(k))
		}
		return dec("TokenPair", "RemoteToken", SBytes, val(k))
	case "usedNonces":
		k := usedNonceRawKey(keys[0], keys[1])
		switch parts[1] {
		case "has":
			return has(k)
		case "dom":
			return dec("Nonce", "SourceDomain", SBV(32), val(k))
		}
		return dec("Nonce", "Nonce", SBV(64), val(k))
	case "messengers":
		k := messengerRawKey(keys[0])
		switch parts[1] {
		case "has":
			return has(k)
		case "addr":
			return dec("RemoteTokenMessenger", "Address", SBytes, val(k))
		}
		return dec("RemoteTokenMessenger", "DomainId", SBV(32), val(k))
	case "nAtt":
		return st.cnt["Attester/value/"]
	case "nLimits", "nPairs", "nNonces", "nMsgrs":
		// number of raw keys under the collection's prefix (L0 iterator contract: Valid() while pos < count)
		for _, li := range listViews {
			if li.Cnt == name {
				return App("rangeCount", SBV(64), st.rawHas, BytesConst(li.Prefix))
			}
		}
	case "limitList", "pairList", "nonceList", "msgrList":
		// field of the pos-th entry the prefix iterator yields, decoded; the zero value beyond the count
		li := listViews[parts[0]]
		c := compByName[name]
		raw := Select(st.rawVal, rangeKeyTerm(st, BytesConst(li.Prefix), keys[0]))
		var d, zero *Term
		if strings.HasSuffix(parts[1], ".isnil") {
			d = Eq(Blen(dec(li.Type, strings.TrimSuffix(parts[1], ".isnil"), SBytes, raw)), BV(64, 0))
		} else {
			d = dec(li.Type, parts[1], c.ValSort, raw)
		}
		switch {
		case c.ValSort == SBool:
			zero = TFalse
		case c.ValSort == SBytes:
			zero = EmptyBytes
		default:
			zero = BV(bvWidth(c.ValSort), 0)
		}
		return Ite(BVUlt(keys[0], coupling(st, li.Cnt, nil)), d, zero)
	case "attList":
		k := rangeKeyTerm(st, BytesConst("Attester/value/"), keys[0])
		return Ite(BVUlt(keys[0], st.cnt["Attester/value/"]), dec("Attester", "Attester", SBytes, Select(st.rawVal, k)), EmptyBytes)
	}
	panic("coupling: unknown component " + name)
}

func readComp(mode string, st *State, name string, keys []*Term) *Term {
	c := compByName[name]
	if c == nil {
		panic("unknown state component " + name)
	}
	if len(keys) != len(c.KeySorts) {
		panic(fmt.Sprintf("component %s needs %d keys", name, len(c.KeySorts)))
	}
	if mode == "L2" {
		return coupling(st, name, keys)
	}
	t := st.abs[name]
	for _, k := range keys {
		t = Select(t, k)
	}
	return t
}

// writeComp (L3 only): point update.
func writeComp(st *State, name string, keys []*Term, v *Term) {
	st.abs[name] = storeNested(st.abs[name], keys, v)
}

func storeNested(arr *Term, keys []*Term, v *Term) *Term {
	if len(keys) == 0 {
		return v
	}
	inner := storeNested(Select(arr, keys[0]), keys[1:], v)
	return Store(arr, keys[0], inner)
}

func compsWithPrefix(prefix string) []*Comp {
	var out []*Comp
	for i := range comps {
		n := comps[i].Name
		if n == prefix || strings.HasPrefix(n, prefix+".") {
			out = append(out, &comps[i])
		}
	}
	return out
}

// ---- prelude

type preludeGroup struct {
	syms []string // include the group when one of these symbols occurs in the query
	text string
}

const arrS = "(Array (_ BitVec 64) (_ BitVec 8))"

var preludeGroups = []preludeGroup{
	{[]string{"canon"}, `(declare-fun canon (Bytes) Bool)
(assert (forall ((b Bytes) (i (_ BitVec 64))) (! (=> (and (canon b) (bvuge i (blen b))) (= (select (barr b) i) #x00)) :pattern ((canon b) (select (barr b) i)))))
`},
	{[]string{"snap"}, `(declare-fun snap (` + arrS + ` (_ BitVec 64) (_ BitVec 64)) Bytes)
(assert (forall ((a ` + arrS + `) (o (_ BitVec 64)) (l (_ BitVec 64))) (! (and (= (blen (snap a o l)) l) (canon (snap a o l))) :pattern ((snap a o l)))))
(assert (forall ((a ` + arrS + `) (o (_ BitVec 64)) (l (_ BitVec 64)) (i (_ BitVec 64))) (! (= (select (barr (snap a o l)) i) (ite (bvult i l) (select a (bvadd o i)) #x00)) :pattern ((select (barr (snap a o l)) i)))))
`},
	{[]string{"cat"}, `(declare-fun cat (Bytes Bytes) Bytes)
(assert (forall ((a Bytes) (b Bytes)) (! (and (= (blen (cat a b)) (bvadd (blen a) (blen b))) (canon (cat a b))) :pattern ((cat a b)))))
(assert (forall ((a Bytes) (b Bytes) (i (_ BitVec 64))) (! (= (select (barr (cat a b)) i) (ite (bvult i (blen a)) (select (barr a) i) (ite (bvult i (bvadd (blen a) (blen b))) (select (barr b) (bvsub i (blen a))) #x00))) :pattern ((select (barr (cat a b)) i)))))
(define-fun lenOK ((a Bytes)) Bool (bvule (blen a) #x0000100000000000))
(assert (forall ((a Bytes) (b Bytes) (c Bytes) (d Bytes)) (! (=> (and (= (cat a c) (cat b d)) (= (blen a) (blen b)) (canon c) (canon d) (lenOK a) (lenOK b) (lenOK c) (lenOK d)) (= c d)) :pattern ((cat a c) (cat b d)))))
(assert (forall ((a Bytes) (b Bytes) (c Bytes) (d Bytes)) (! (=> (and (= (cat a c) (cat b d)) (= (blen a) (blen b)) (canon a) (canon b) (lenOK a) (lenOK b) (lenOK c) (lenOK d)) (= a b)) :pattern ((cat a c) (cat b d)))))
`},
	{[]string{"memcpy"}, `(declare-fun memcpy (` + arrS + ` (_ BitVec 64) ` + arrS + ` (_ BitVec 64) (_ BitVec 64)) ` + arrS + `)
(assert (forall ((d ` + arrS + `) (do (_ BitVec 64)) (s ` + arrS + `) (so (_ BitVec 64)) (n (_ BitVec 64)) (i (_ BitVec 64))) (! (= (select (memcpy d do s so n) i) (ite (and (bvuge i do) (bvult (bvsub i do) n)) (select s (bvadd so (bvsub i do))) (select d i))) :pattern ((select (memcpy d do s so n) i)))))
`},
	{[]string{"keccak"}, `(declare-fun keccak (Bytes) Bytes)
(assert (forall ((b Bytes)) (! (and (= (blen (keccak b)) #x0000000000000020) (canon (keccak b))) :pattern ((keccak b)))))
(assert (forall ((a Bytes) (b Bytes)) (! (=> (= (keccak a) (keccak b)) (= a b)) :pattern ((keccak a) (keccak b)))))
`},
	{[]string{"lower"}, `(declare-fun lower (Bytes) Bytes)
(assert (forall ((b Bytes)) (! (and (= (lower (lower b)) (lower b)) (canon (lower b)) (bvule (blen (lower b)) #x0000020000000000)) :pattern ((lower b)))))
`},
	{[]string{"foldEq"}, `(declare-fun foldEq (Bytes Bytes) Bool)
(declare-fun lower (Bytes) Bytes)
(assert (forall ((a Bytes)) (! (foldEq a a) :pattern ((foldEq a a)))))
(assert (forall ((a Bytes) (b Bytes)) (! (=> (= (lower a) (lower b)) (foldEq a b)) :pattern ((foldEq a b)))))
`},
	{[]string{"accBytes", "validBech32"}, `(declare-fun accBytes (Bytes) Bytes)
(declare-fun validBech32 (Bytes) Bool)
(assert (forall ((s Bytes)) (! (and (canon (accBytes s)) (=> (validBech32 s) (and (bvuge (blen (accBytes s)) #x0000000000000001) (bvule (blen (accBytes s)) #x00000000000000ff))) (=> (not (validBech32 s)) (= (blen (accBytes s)) #x0000000000000000))) :pattern ((accBytes s)))))
(assert (not (validBech32 (mkb ((as const ` + arrS + `) #x00) #x0000000000000000))))
`},
	{[]string{"bech32"}, `(declare-fun bech32 (Bytes Bytes) Bytes)
(assert (forall ((p Bytes) (b Bytes)) (! (and (canon (bech32 p b)) (bvule (blen (bech32 p b)) #x0000020000000000)) :pattern ((bech32 p b)))))
(assert (forall ((p Bytes) (a Bytes) (b Bytes)) (! (=> (= (bech32 p a) (bech32 p b)) (= a b)) :pattern ((bech32 p a) (bech32 p b)))))
(declare-fun accBytes (Bytes) Bytes)
(declare-fun validBech32 (Bytes) Bool)
(declare-fun acctPrefix () Bytes)
(assert (forall ((b Bytes)) (! (=> (and (canon b) (bvuge (blen b) #x0000000000000001) (bvule (blen b) #x00000000000000ff)) (and (validBech32 (bech32 acctPrefix b)) (= (accBytes (bech32 acctPrefix b)) b))) :pattern ((bech32 acctPrefix b)))))
`},
	{[]string{"hexenc"}, `(declare-fun hexenc (Bytes) Bytes)
(assert (forall ((b Bytes)) (! (and (canon (hexenc b)) (= (blen (hexenc b)) (bvshl (blen b) #x0000000000000001))) :pattern ((hexenc b)))))
`},
	{[]string{"hexdec"}, `(declare-fun hexdec (Bytes) Bytes)
(assert (forall ((b Bytes)) (! (and (canon (hexdec b)) (bvule (blen (hexdec b)) (bvlshr (blen b) #x0000000000000001))) :pattern ((hexdec b)))))
`},
	{[]string{"fromHex"}, `(declare-fun fromHex (Bytes) Bytes)
(assert (forall ((b Bytes)) (! (and (canon (fromHex b)) (bvule (blen (fromHex b)) (bvadd #x0000000000000001 (bvlshr (blen b) #x0000000000000001)))) :pattern ((fromHex b)))))
`},
	{[]string{"base58dec"}, `(declare-fun base58dec (Bytes) Bytes)
(assert (forall ((b Bytes)) (! (and (canon (base58dec b)) (bvule (blen (base58dec b)) (blen b))) :pattern ((base58dec b)))))
`},
	{[]string{"trimPrefix"}, `(declare-fun trimPrefix (Bytes Bytes) Bytes)
(assert (forall ((a Bytes) (b Bytes)) (! (and (canon (trimPrefix a b)) (bvule (blen (trimPrefix a b)) (blen a))) :pattern ((trimPrefix a b)))))
`},
	{[]string{"moduleAddr"}, `(declare-fun moduleAddr (Bytes) Bytes)
(assert (forall ((b Bytes)) (! (and (canon (moduleAddr b)) (= (blen (moduleAddr b)) #x0000000000000014)) :pattern ((moduleAddr b)))))
`},
	{[]string{"mintingDenom"}, `(declare-fun mintingDenom (Ext) Bytes)
(assert (forall ((e Ext)) (! (and (canon (mintingDenom e)) (bvule (blen (mintingDenom e)) #x0000020000000000)) :pattern ((mintingDenom e)))))
`},
	{[]string{"ecrecKey"}, `(declare-fun ecrecKey (Bytes Bytes) Bytes)
(assert (forall ((d Bytes) (s Bytes)) (! (and (canon (ecrecKey d s)) (= (blen (ecrecKey d s)) #x0000000000000041)) :pattern ((ecrecKey d s)))))
`},
	{[]string{"addrOf"}, `(declare-fun addrOf ((_ BitVec 264) (_ BitVec 264)) Bytes)
(assert (forall ((x (_ BitVec 264)) (y (_ BitVec 264))) (! (and (canon (addrOf x y)) (= (blen (addrOf x y)) #x0000000000000014)) :pattern ((addrOf x y)))))
`},
	{[]string{"rangeKeyAtt"}, `(define-fun attPrefix ((k Bytes)) Bool (and (bvuge (blen k) #x000000000000000f) (= (select (barr k) #x0000000000000000) #x41) (= (select (barr k) #x0000000000000001) #x74) (= (select (barr k) #x0000000000000002) #x74) (= (select (barr k) #x0000000000000003) #x65) (= (select (barr k) #x0000000000000004) #x73) (= (select (barr k) #x0000000000000005) #x74) (= (select (barr k) #x0000000000000006) #x65) (= (select (barr k) #x0000000000000007) #x72) (= (select (barr k) #x0000000000000008) #x2f) (= (select (barr k) #x0000000000000009) #x76) (= (select (barr k) #x000000000000000a) #x61) (= (select (barr k) #x000000000000000b) #x6c) (= (select (barr k) #x000000000000000c) #x75) (= (select (barr k) #x000000000000000d) #x65) (= (select (barr k) #x000000000000000e) #x2f)))
(declare-fun rangeKeyAtt ((Array Bytes Bool) (_ BitVec 64)) Bytes)
(assert (forall ((h (Array Bytes Bool)) (k Bytes) (v Bool) (j (_ BitVec 64))) (! (=> (not (attPrefix k)) (= (rangeKeyAtt (store h k v) j) (rangeKeyAtt h j))) :pattern ((rangeKeyAtt (store h k v) j)))))
(assert (forall ((h (Array Bytes Bool)) (j (_ BitVec 64))) (! (and (attPrefix (rangeKeyAtt h j)) (canon (rangeKeyAtt h j))) :pattern ((rangeKeyAtt h j)))))
`},
	{[]string{"trig32"}, `(declare-fun trig32 ((_ BitVec 32)) Bool)
(assert (forall ((x (_ BitVec 32))) (! (trig32 x) :pattern ((trig32 x)))))
`},
	{[]string{"trig64"}, `(declare-fun trig64 ((_ BitVec 64)) Bool)
(assert (forall ((x (_ BitVec 64))) (! (trig64 x) :pattern ((trig64 x)))))
`},
	{[]string{"errText"}, `(declare-fun errText (Int) Bytes)
`},
}

// codec axioms are generated per proto type: dec_T_f(enc_T(f1..fn)) = fi, enc never nil, canonical.
type protoField struct {
	Name string
	Sort string
}

var protoTypes = map[string][]protoField{
	"BurningAndMintingPaused":           {{"Paused", SBool}},
	"SendingAndReceivingMessagesPaused": {{"Paused", SBool}},
	"MaxMessageBodySize":                {{"Amount", SBV(64)}},
	"SignatureThreshold":                {{"Amount", SBV(32)}},
	"Nonce":                             {{"SourceDomain", SBV(32)}, {"Nonce", SBV(64)}},
	"Attester":                          {{"Attester", SBytes}},
	"PerMessageBurnLimit":               {{"Denom", SBytes}, {"Amount.nil", SBool}, {"Amount.v", SBV(bigW)}},
	"TokenPair":                         {{"RemoteDomain", SBV(32)}, {"RemoteToken", SBytes}, {"LocalToken", SBytes}},
	"RemoteTokenMessenger":              {{"DomainId", SBV(32)}, {"Address", SBytes}},
}

func codecPrelude(typ string) string {
	fs := protoTypes[typ]
	var sb strings.Builder
	var sorts, vars, names []string
	for i, f := range fs {
		sorts = append(sorts, f.Sort)
		vars = append(vars, fmt.Sprintf("(f%d %s)", i, f.Sort))
		names = append(names, fmt.Sprintf("f%d", i))
	}
	fmt.Fprintf(&sb, "(declare-fun enc_%s (%s) Bytes)\n", typ, strings.Join(sorts, " "))
	for _, f := range fs {
		fmt.Fprintf(&sb, "(declare-fun |dec_%s_%s| (Bytes) %s)\n", typ, f.Name, f.Sort)
	}
	app := fmt.Sprintf("(enc_%s %s)", typ, strings.Join(names, " "))
	var conj []string
	conj = append(conj, fmt.Sprintf("(canon %s)", app))
	conj = append(conj, fmt.Sprintf("(bvule (blen %s) #x0000020000000000)", app))
	for i, f := range fs {
		rhs := fmt.Sprintf("f%d", i)
		conj = append(conj, fmt.Sprintf("(= (|dec_%s_%s| %s) %s)", typ, f.Name, app, rhs))
	}
	fmt.Fprintf(&sb, "(assert (forall (%s) (! (and %s) :pattern (%s))))\n", strings.Join(vars, " "), strings.Join(conj, " "), app)
	// decoded byte strings are canonical
	for _, f := range fs {
		if f.Sort == SBytes {
			fmt.Fprintf(&sb, "(assert (forall ((b Bytes)) (! (and (canon (|dec_%s_%s| b)) (bvule (blen (|dec_%s_%s| b)) #x0000020000000000)) :pattern ((|dec_%s_%s| b)))))\n", typ, f.Name, typ, f.Name, typ, f.Name)
		}
	}
	// the empty byte string decodes to the zero message (proto3)
	empty := "(mkb ((as const " + arrS + ") #x00) #x0000000000000000)"
	for _, f := range fs {
		var z string
		switch {
		case f.Sort == SBool:
			z = "false"
			if f.Name == "Amount.nil" {
				z = "true" // absent math.Int field unmarshals to the nil Int
			}
		case f.Sort == SBytes:
			z = empty
		default:
			w := bvWidth(f.Sort)
			z = "#x" + strings.Repeat("0", w/4)
		}
		fmt.Fprintf(&sb, "(assert (= (|dec_%s_%s| %s) %s))\n", typ, f.Name, empty, z)
	}
	return sb.String()
}

// buildPrelude selects the groups a query needs.
func buildPrelude(used map[string]bool) string {
	var sb strings.Builder
	need := map[int]bool{}
	changed := true
	// canon is needed by most groups
	for changed {
		changed = false
		for i, g := range preludeGroups {
			if need[i] {
				continue
			}
			for _, s := range g.syms {
				if used[s] {
					need[i] = true
					changed = true
					// groups mention canon / lower
					if strings.Contains(g.text, "(canon ") {
						used["canon"] = true
					}
					if strings.Contains(g.text, "(lower ") {
						used["lower"] = true
					}
					break
				}
			}
		}
	}
	for n := range specFuns {
		if used[n] {
			used["canon"] = true
		}
	}
	var types []string
	for t := range protoTypes {
		for s := range used {
			if s == "enc_"+t || strings.HasPrefix(s, "dec_"+t+"_") {
				types = append(types, t)
				used["canon"] = true
				break
			}
		}
	}
	sort.Strings(types)
	// canon first
	for i, g := range preludeGroups {
		if g.syms[0] == "canon" && (need[i] || used["canon"]) {
			sb.WriteString(g.text)
		}
	}
	declared := map[string]bool{}
	for i, g := range preludeGroups {
		if g.syms[0] == "canon" || !need[i] {
			continue
		}
		// avoid double declaration of lower
		text := g.text
		for _, line := range strings.SplitAfter(text, "\n") {
			if strings.HasPrefix(line, "(declare-fun ") {
				name := strings.Fields(line[len("(declare-fun "):])[0]
				if declared[name] {
					continue
				}
				declared[name] = true
			}
			sb.WriteString(line)
		}
	}
	for _, t := range types {
		sb.WriteString(codecPrelude(t))
	}
	// opaque spec functions returning byte strings: canonical, of their declared length
	var sfn []string
	for n := range specFuns {
		if used[n] {
			sfn = append(sfn, n)
		}
	}
	sort.Strings(sfn)
	for _, n := range sfn {
		sf := specFuns[n]
		func() {
			defer func() { recover() }()
			rs, ln := retSort(sf.Ret)
			var ps, vs, as []string
			for i, p := range sf.Params {
				s, _ := retSort(p[1])
				ps = append(ps, s)
				vs = append(vs, fmt.Sprintf("(a%d %s)", i, s))
				as = append(as, fmt.Sprintf("a%d", i))
			}
			fmt.Fprintf(&sb, "(declare-fun %s (%s) %s)\n", n, strings.Join(ps, " "), rs)
			if rs == SBytes {
				app := fmt.Sprintf("(%s %s)", n, strings.Join(as, " "))
				lenFact := fmt.Sprintf("(bvule (blen %s) #x0000010000000000)", app)
				if ln > 0 {
					lenFact = fmt.Sprintf("(= (blen %s) #x%016x)", app, ln)
				}
				fmt.Fprintf(&sb, "(assert (forall (%s) (! (and (canon %s) %s) :pattern (%s))))\n", strings.Join(vs, " "), app, lenFact, app)
			}
		}()
	}
	return sb.String()
}

func usedSymbols(ts []*Term) map[string]bool {
	used := map[string]bool{}
	seen := map[*Term]bool{}
	var rec func(t *Term)
	rec = func(t *Term) {
		if seen[t] {
			return
		}
		seen[t] = true
		if t.Op == "app" {
			used[t.Name] = true
		}
		for _, a := range t.Args {
			rec(a)
		}
		for _, p := range t.Pats {
			for _, a := range p {
				rec(a)
			}
		}
	}
	for _, t := range ts {
		rec(t)
	}
	return used
}

// canonFacts returns (canon t) for every mkb term in ts that is canonical by construction:
// a constant length and a chain of stores at constant in-range indices over the all-zero array.
func canonFacts(ts []*Term) []*Term {
	var out []*Term
	seen := map[*Term]bool{}
	var rec func(t *Term)
	rec = func(t *Term) {
		if seen[t] {
			return
		}
		seen[t] = true
		if t.Op == "forall" || t.Op == "exists" {
			// terms under a binder may mention its variable: no ground fact can be stated about them
			return
		}
		if t.Op == "mkb" {
			if n, ok := t.Args[1].U64(); ok {
				a := t.Args[0]
				good := true
				for a.Op == "store" {
					i, ok := a.Args[1].U64()
					if !ok || i >= n {
						good = false
						break
					}
					a = a.Args[0]
				}
				if good && a == ZeroArr {
					out = append(out, App("canon", SBool, t))
				}
			}
		}
		// first bytes of cat(P, x) for a constant-length P: instances of the defining axiom of cat
		if t.Op == "app" && t.Name == "cat" {
			if n, ok := Blen(t.Args[0]).U64(); ok {
				if n > 8 {
					n = 8
				}
				for i := uint64(0); i < n; i++ {
					out = append(out, Eq(RawSelect(intern(&Term{Op: "barr", Sort: SArr, Args: []*Term{t}}), BVU(64, i)), Select(Barr(t.Args[0]), BVU(64, i))))
				}
			}
		}
		for _, a := range t.Args {
			rec(a)
		}
	}
	for _, t := range ts {
		rec(t)
	}
	return out
}

// extGoal rewrites positive occurrences of a byte-string equality X = Y whose sides are built from
// cat / snap / memcpy / literal layouts into  |X| = |Y|  and  X[k] = Y[k]  for a fresh index k
// (extensionality, with the universally quantified index skolemised because the occurrence is positive).
// This puts the select terms in the goal that the defining axioms trigger on.
func extGoal(t *Term, positive bool, ctr *int) *Term {
	switch t.Op {
	case "and":
		args := make([]*Term, len(t.Args))
		for i, a := range t.Args {
			args[i] = extGoal(a, positive, ctr)
		}
		return And(args...)
	case "or":
		args := make([]*Term, len(t.Args))
		for i, a := range t.Args {
			args[i] = extGoal(a, positive, ctr)
		}
		return Or(args...)
	case "not":
		return Not(extGoal(t.Args[0], !positive, ctr))
	case "=>":
		return Implies(extGoal(t.Args[0], !positive, ctr), extGoal(t.Args[1], positive, ctr))
	case "ite":
		if t.Sort == SBool {
			return Ite(t.Args[0], extGoal(t.Args[1], positive, ctr), extGoal(t.Args[2], positive, ctr))
		}
	case "=":
		if positive && t.Args[0].Sort == SBytes && (structured(t.Args[0]) || structured(t.Args[1])) {
			return bytesEqGoal(t.Args[0], t.Args[1], ctr)
		}
	}
	return t
}

// constructedLen: t is mkb(store chain over the zero array at constant indices < n, n); returns n.
func constructedLen(t *Term) (uint64, bool) {
	if t.Op != "mkb" {
		return 0, false
	}
	n, ok := t.Args[1].U64()
	if !ok || n > 256 {
		return 0, false
	}
	a := t.Args[0]
	for a.Op == "store" {
		i, ok := a.Args[1].U64()
		if !ok || i >= n {
			return 0, false
		}
		a = a.Args[0]
	}
	return n, a == ZeroArr
}

// bytesEqGoal returns a formula that implies x = y (and is equivalent to it in the cases that occur):
// cat is compared piecewise, literal layouts byte by byte, anything else at a fresh index.
func bytesEqGoal(x, y *Term, ctr *int) *Term {
	if x == y {
		return TTrue
	}
	if x.Op == "app" && x.Name == "cat" && y.Op == "app" && y.Name == "cat" {
		return And(bytesEqGoal(x.Args[0], y.Args[0], ctr), bytesEqGoal(x.Args[1], y.Args[1], ctr))
	}
	if _, ok := constructedLen(y); ok {
		x, y = y, x
	}
	if n, ok := constructedLen(x); ok {
		conj := []*Term{}
		if m, ok := constructedLen(y); ok {
			if m != n {
				return TFalse
			}
		} else {
			conj = append(conj, Eq(Blen(y), BVU(64, n)), App("canon", SBool, y))
		}
		for i := uint64(0); i < n; i++ {
			conj = append(conj, Eq(Select(Barr(x), BVU(64, i)), Select(Barr(y), BVU(64, i))))
		}
		return And(conj...)
	}
	*ctr++
	k := Var(fmt.Sprintf("ext$k%d", *ctr), SBV(64))
	return And(Eq(Blen(x), Blen(y)), Eq(Select(Barr(x), k), Select(Barr(y), k)))
}

func structured(t *Term) bool {
	switch t.Op {
	case "mkb":
		return true
	case "app":
		return t.Name == "cat" || t.Name == "snap"
	case "ite":
		return structured(t.Args[1]) || structured(t.Args[2])
	}
	return false
}

func init() {
	blenOfApp = func(name string) int { return fixedLenApps[name] }
	rebuildApp = func(name string, args []*Term) *Term {
		switch name {
		case "snap":
			return snapArr(args[0], args[1], args[2])
		case "cat":
			return Cat(args[0], args[1])
		case "bigOfBytes":
			// big.Int.SetBytes of a byte string whose length has become a known constant <= 32
			if n, ok := Blen(args[0]).U64(); ok && n <= 32 {
				if n == 0 {
					return BV(bigW, 0)
				}
				return ZeroExt(bigW, beRead(args[0], BV(64, 0), int(n)))
			}
		}
		return nil
	}
}

// ---- unit propagation over the assumptions of a query

// propagate rewrites the assumptions and the goal with the unit facts found among the assumptions:
// an atom a (or its negation) is replaced by true (false) everywhere else, t = const and x + c1 = c2
// replace t (x) by the constant. The facts themselves are kept. Iterated to a fixpoint.
func propagate(assumes []*Term, goal *Term) ([]*Term, *Term) {
	flatten := func(in []*Term) []*Term {
		var flat []*Term
		var add func(a *Term)
		add = func(a *Term) {
			switch {
			case a == TTrue:
			case a.Op == "and":
				for _, x := range a.Args {
					add(x)
				}
			case a.Op == "=" && a.Args[0].Sort == SBytes:
				n1, ok1 := constructedLen(a.Args[0])
				n2, ok2 := constructedLen(a.Args[1])
				if ok1 && ok2 && n1 == n2 {
					for i := uint64(0); i < n1; i++ {
						add(Eq(Select(Barr(a.Args[0]), BVU(64, i)), Select(Barr(a.Args[1]), BVU(64, i))))
					}
				} else {
					flat = append(flat, a)
				}
			default:
				flat = append(flat, a)
			}
		}
		for _, a := range in {
			add(a)
		}
		return flat
	}
	cur := flatten(assumes)
	for round := 0; round < 10; round++ {
		// collect units: key term -> replacement, remembering which assumption defines it
		m := map[*Term]*Term{}
		owner := map[*Term]*Term{}
		for _, a := range cur {
			var k, v *Term
			switch {
			case a.Op == "not":
				k, v = a.Args[0], TFalse
			case a.Op == "=" && a.Args[0].Sort != SBool:
				x, y := a.Args[0], a.Args[1]
				if x.Op == "const" {
					x, y = y, x
				}
				if y.Op == "const" && x.Op != "const" {
					if x.Op == "bvadd" && x.Args[1].Op == "const" {
						k, v = x.Args[0], BVSub(y, x.Args[1])
					} else {
						k, v = x, y
					}
				} else if x.Op == "var" && !occurs(x, y) {
					k, v = x, y
				} else if y.Op == "var" && !occurs(y, x) {
					k, v = y, x
				} else if x.Op == "zero_extend" && y.Op != "zero_extend" && !occurs(x, y) {
					// oriented rewrite: a widening of a sum equals the sum of the widening (no-overflow fact)
					k, v = x, y
				} else if y.Op == "zero_extend" && x.Op != "zero_extend" && !occurs(y, x) {
					k, v = y, x
				} else {
					k, v = a, TTrue
				}
			case a.Op == "or" || a.Op == "=>" || a.Op == "ite" || a.Op == "forall" || a.Op == "exists" || a.Op == "bconst":
			default:
				k, v = a, TTrue
			}
			if k != nil && k.Op != "const" && k.Op != "bconst" {
				if _, dup := m[k]; !dup {
					m[k] = v
					owner[k] = a
				}
			}
		}
		if len(m) == 0 {
			break
		}
		changed := false
		var next []*Term
		for _, a := range cur {
			// do not rewrite a fact with itself
			mm := m
			for k, o := range owner {
				if o == a {
					mm = make(map[*Term]*Term, len(m))
					for k2, v2 := range m {
						if k2 != k {
							mm[k2] = v2
						}
					}
					break
				}
			}
			n := Subst(a, mm)
			if n != a {
				changed = true
			}
			next = append(next, n)
		}
		g := Subst(goal, m)
		if g != goal {
			changed = true
			goal = g
		}
		cur = flatten(next)
		if !changed {
			break
		}
	}
	return cur, goal
}

// AccBytes / ValidBech32 apply the assumed round-trip axiom of the account-prefix bech32 encoding at term
// level: for a canonical b of 1..255 bytes, accBytes(bech32(acctPrefix, b)) = b and the string is valid.
func bech32Arg(s *Term) (*Term, bool) {
	if s.Op == "app" && s.Name == "bech32" && s.Args[0] == Var("acctPrefix", SBytes) {
		b := s.Args[1]
		if n, ok := Blen(b).U64(); ok && n >= 1 && n <= 255 {
			if b.Op == "app" && (b.Name == "moduleAddr" || b.Name == "keccak" || b.Name == "addrOf") {
				return b, true
			}
			if _, ok := constructedLen(b); ok {
				return b, true
			}
		}
	}
	return nil, false
}

func AccBytes(s *Term) *Term {
	if b, ok := bech32Arg(s); ok {
		return b
	}
	return App("accBytes", SBytes, s)
}

func ValidBech32(s *Term) *Term {
	if _, ok := bech32Arg(s); ok {
		return TTrue
	}
	return App("validBech32", SBool, s)
}

// rangeKeyTerm is the raw key of the pos-th entry (in key order) of the prefix range (L0 iterator contract).
func rangeKeyTerm(st *State, prefix, pos *Term) *Term {
	if prefix == BytesConst("Attester/value/") {
		return App("rangeKeyAtt", SBytes, st.rawHas, pos)
	}
	return App("rangeKey", SBytes, st.rawHas, prefix, pos)
}
