package main

// Replay of a failed obligation against the real code.
//
// Reach: functions whose parameters, receiver and results are plain data (bytes, strings, integers, math.Int,
// structs and lists of those) - the byte-level leaves, the key functions, the CLI helpers, genesis validation
// and the attestation verifier. For such a function a failed obligation is followed up like this:
//  1. candidate input: the obligation's query with the quantified prelude axioms dropped (every model of the
//     full query is a model of this one) is given to z3, and the values of the parameters are read off the
//     model piece by piece, each piece pinned before the next is asked for;
//  2. the real function is run on that input: a test is injected into its package with `go test -overlay`
//     (nothing is written to /repo), the call is made under recover() and its results are dumped;
//  3. verdict: a nopanic obligation is confirmed by an observed panic; any other obligation is confirmed when
//     some ensures clause of the function's contract is *provably false* (solver answers unsat for
//     "input = this, output = that, clause") for the observed input/output pair, and not vacuously so.
// A candidate that does not reproduce (the dropped axioms allowed it) proves nothing and is discarded; the
// violation is then still reported, with the words no-failing-input-found.
//
// Handlers (keeper state, context, dependencies) are outside this reach: their failed obligations are always
// reported without a concrete input.

import (
	"encoding/hex"
	"encoding/json"
	"fmt"
	"go/types"
	"math/big"
	"os"
	"os/exec"
	"path/filepath"
	"sort"
	"strings"
	"time"

	"golang.org/x/tools/go/ssa"
)

// all replay attempts of one check run share this much wall time
const replayBudget = 90 * time.Second

var replayStart time.Time

const replayMaxBytes = 2048
const replayMaxList = 16

func plainType(t types.Type, result bool, depth int) bool {
	if depth > 6 {
		return false
	}
	switch classify(t) {
	case kBool, kInt, kStr, kBytes, kBig:
		return true
	case kErr:
		return result
	case kPtr:
		return plainType(t.(*types.Pointer).Elem(), false, depth+1) && classify(t.(*types.Pointer).Elem()) == kStruct
	case kStruct:
		s := t.Underlying().(*types.Struct)
		for i := 0; i < s.NumFields(); i++ {
			if strings.HasPrefix(s.Field(i).Name(), "XXX_") {
				continue
			}
			if !plainType(s.Field(i).Type(), false, depth+1) {
				return false
			}
		}
		return true
	case kList:
		return plainType(t.Underlying().(*types.Slice).Elem(), false, depth+1)
	}
	return false
}

func replayable(fn *ssa.Function) bool {
	if fn == nil || fn.Parent() != nil || fn.Object() == nil {
		return false
	}
	for _, p := range fn.Params {
		if !plainType(p.Type(), false, 0) {
			return false
		}
	}
	res := fn.Signature.Results()
	for i := 0; i < res.Len(); i++ {
		if !plainType(res.At(i).Type(), true, 0) {
			return false
		}
	}
	return true
}

// ---- reading a model piece by piece

type modelSession struct {
	asserts []*Term
	pins    []*Term
	without []string
	calls    int
	secs     float64
	lastGood int
}

// dropQuantified removes the top-level assertions that contain a quantifier (prelude axioms and quantified
// path facts): the remaining query is weaker, so it has every model the full query has (and more).
func dropQuantified(text string) string {
	var out strings.Builder
	depth := 0
	start := 0
	var qnames []string // shared terms (define-fun $tN) whose body is quantified
	mentionsQ := func(form string) bool {
		if strings.Contains(form, "(forall ") || strings.Contains(form, "(exists ") {
			return true
		}
		for _, n := range qnames {
			if strings.Contains(form, n+" ") || strings.Contains(form, n+")") {
				return true
			}
		}
		return false
	}
	for i := 0; i < len(text); i++ {
		switch text[i] {
		case '(':
			if depth == 0 {
				out.WriteString(text[start:i])
				start = i
			}
			depth++
		case ')':
			depth--
			if depth == 0 {
				form := text[start : i+1]
				start = i + 1
				if strings.HasPrefix(form, "(define-fun $t") && mentionsQ(form) {
					qnames = append(qnames, strings.Fields(form[len("(define-fun "):])[0])
				}
				if strings.HasPrefix(form, "(assert") && mentionsQ(form) {
					continue
				}
				if strings.HasPrefix(form, "(check-sat") || strings.HasPrefix(form, "(get-value") || strings.HasPrefix(form, "(get-model") {
					continue
				}
				out.WriteString(form)
			}
		case ';':
			if depth == 0 {
				for i < len(text) && text[i] != '\n' {
					i++
				}
			}
		}
	}
	return out.String()
}

// run solves asserts + pins + extra with the quantified assertions dropped; with ts it also returns their values.
func (m *modelSession) run(extra []*Term, ts []*Term) ([]*big.Int, bool) {
	all := append(append(append([]*Term{}, m.asserts...), m.pins...), extra...)
	used := usedSymbols(append(append([]*Term{}, all...), ts...))
	for _, w := range m.without {
		delete(used, w)
	}
	full := Script(all, buildPrelude(used), ts)
	text := dropQuantified(full) + "(check-sat)\n"
	if len(ts) > 0 {
		text += full[strings.LastIndex(full, "(get-value"):] + "\n"
	}
	m.calls++
	t0 := time.Now()
	file := filepath.Join(scratchDir, fmt.Sprintf("replay%d.smt2", time.Now().UnixNano()))
	if k := os.Getenv("GOVC_KEEP"); k != "" {
		file = filepath.Join(k, fmt.Sprintf("replay-%p-%d.smt2", m, m.calls))
	} else {
		defer os.Remove(file)
	}
	os.WriteFile(file, []byte(text), 0o644)
	// z3 5.x first; cvc5 and z3 4.8 decide some quantifier-free array queries it times out on
	out := ""
	solvers := [][]string{{"z3-new", "-t:3000", file}, {"cvc5", "--lang", "smt2", "--tlimit=10000", "--produce-models", file}, {"z3", "-t:10000", file}}
	// the solver that decided the previous query of this session goes first
	solvers[0], solvers[m.lastGood] = solvers[m.lastGood], solvers[0]
	for k, argv := range solvers {
		outb, _ := exec.Command(argv[0], argv[1:]...).CombinedOutput()
		out = strings.TrimSpace(string(outb))
		if strings.HasPrefix(out, "sat") || strings.HasPrefix(out, "unsat") {
			if k != 0 {
				if k == m.lastGood {
					m.lastGood = 0
				} else if m.lastGood == 0 {
					m.lastGood = k
				}
			}
			break
		}
	}
	m.secs += time.Since(t0).Seconds()
	if !strings.HasPrefix(out, "sat") {
		return nil, false
	}
	if len(ts) == 0 {
		return nil, true
	}
	vals := parseGetValue(out[strings.Index(out, "sat")+3:])
	if len(vals) != len(ts) {
		return nil, false
	}
	return vals, true
}

// prefer pins the given facts if the query stays satisfiable with them (a more telling model), else leaves them out.
func (m *modelSession) prefer(facts []*Term) bool {
	if len(facts) == 0 {
		return true
	}
	if _, ok := m.run(facts, nil); ok {
		m.pins = append(m.pins, facts...)
		return true
	}
	if len(facts) == 1 {
		return false
	}
	a := m.prefer(facts[:len(facts)/2])
	b := m.prefer(facts[len(facts)/2:])
	return a && b
}

// values asks for the values of scalar terms (Bool / bit-vector) under everything pinned so far, and pins them.
func (m *modelSession) values(ts []*Term) ([]*big.Int, bool) {
	if len(ts) == 0 {
		return nil, true
	}
	vals, ok := m.run(nil, ts)
	if !ok {
		return nil, false
	}
	for i, t := range ts {
		if t.Sort == SBool {
			if vals[i].Sign() != 0 {
				m.pins = append(m.pins, t)
			} else {
				m.pins = append(m.pins, Not(t))
			}
		} else {
			m.pins = append(m.pins, Eq(t, BVBig(t.Width(), vals[i])))
		}
	}
	return vals, true
}

// parseGetValue reads ((t v) (t v) ...) and returns the values (booleans as 0/1).
func parseGetValue(s string) []*big.Int {
	s = strings.TrimSpace(s)
	var vals []*big.Int
	depth := 0
	pairStart := -1
	for i := 0; i < len(s); i++ {
		switch s[i] {
		case '(':
			depth++
			if depth == 2 {
				pairStart = i
			}
		case ')':
			if depth == 2 && pairStart >= 0 {
				pair := s[pairStart+1 : i]
				// the value is the last atom of the pair
				j := strings.LastIndexAny(pair, " \n\t)")
				atom := strings.TrimSpace(pair[j+1:])
				v := new(big.Int)
				switch {
				case atom == "true":
					v.SetInt64(1)
				case atom == "false":
				case strings.HasPrefix(atom, "#x"):
					v.SetString(atom[2:], 16)
				case strings.HasPrefix(atom, "#b"):
					v.SetString(atom[2:], 2)
				default:
					return nil
				}
				vals = append(vals, v)
				pairStart = -1
			}
			depth--
			if depth == 0 {
				return vals
			}
		}
	}
	return vals
}

func (m *modelSession) one(t *Term) (*big.Int, bool) {
	v, ok := m.values([]*Term{t})
	if !ok {
		return nil, false
	}
	return v[0], true
}

// boundedLen pins a length to at most max before reading it (a model with a smaller length is as good).
func (m *modelSession) boundedLen(t *Term, max int64) (int, bool) {
	// short inputs are as good as long ones and far cheaper to read off the model
	for _, small := range []int64{0, 8, 64, 256} {
		if small < max && m.prefer([]*Term{BVUle(t, BV(t.Width(), small))}) {
			break
		}
	}
	m.pins = append(m.pins, BVUle(t, BV(t.Width(), max)))
	v, ok := m.one(t)
	if !ok {
		return 0, false
	}
	return int(v.Int64()), true
}

func signedOf(v *big.Int, w int) *big.Int {
	if v.Bit(w-1) == 1 {
		return new(big.Int).Sub(v, new(big.Int).Lsh(big.NewInt(1), uint(w)))
	}
	return v
}

// concretize reads the value of v (of Go type t) off the model as the JSON shape the injected test understands.
func (rp *replayer) concretize(st *State, v Value, t types.Type) (interface{}, bool) {
	m := rp.m
	ex := rp.ex
	switch classify(t) {
	case kBool:
		b, ok := m.one(v.(VBool).T)
		if !ok {
			return nil, false
		}
		return b.Sign() != 0, true
	case kInt:
		x := v.(VBV)
		rp.salt++
		pv := new(big.Int)
		for i := 0; i < x.T.Width()/8; i++ {
			pv.Lsh(pv, 8).Or(pv, big.NewInt(int64((i*7+rp.salt*31+1)%251)))
		}
		m.prefer([]*Term{Eq(x.T, BVBig(x.T.Width(), pv))})
		n, ok := m.one(x.T)
		if !ok {
			return nil, false
		}
		_, signed := intInfo(t)
		if signed {
			n = signedOf(n, x.T.Width())
		}
		return n.String(), true
	case kStr:
		bt := v.(VStr).T
		n, ok := m.boundedLen(Blen(bt), replayMaxBytes)
		if !ok {
			return nil, false
		}
		bs, ok := rp.readBytes(Barr(bt), BV(64, 0), n)
		if !ok {
			return nil, false
		}
		return map[string]interface{}{"hex": hex.EncodeToString(bs)}, true
	case kBytes:
		s := v.(VSlice)
		isnil, ok := m.one(s.Nil)
		if !ok {
			return nil, false
		}
		if isnil.Sign() != 0 {
			return nil, true
		}
		n, ok := m.boundedLen(s.Len, replayMaxBytes)
		if !ok {
			return nil, false
		}
		if s.Obj < 0 {
			return map[string]interface{}{"hex": ""}, true
		}
		bs, ok := rp.readBytes(st.heap[s.Obj], s.Off, n)
		if !ok {
			return nil, false
		}
		return map[string]interface{}{"hex": hex.EncodeToString(bs)}, true
	case kBig:
		x := v.(VBig)
		isnil, ok := m.one(x.Nil)
		if !ok {
			return nil, false
		}
		if isnil.Sign() != 0 {
			return nil, true
		}
		n, ok := m.one(x.V)
		if !ok {
			return nil, false
		}
		return map[string]interface{}{"dec": signedOf(n, bigW).String()}, true
	case kPtr:
		p := v.(VPtr)
		if p.NilT != nil && p.NilT != TFalse {
			isnil, ok := m.one(p.NilT)
			if !ok {
				return nil, false
			}
			if isnil.Sign() != 0 {
				return nil, true
			}
		}
		return rp.concretize(st, ex.specLoad(st, p), t.(*types.Pointer).Elem())
	case kStruct:
		sv, ok := v.(VStruct)
		if !ok {
			return nil, false
		}
		s := t.Underlying().(*types.Struct)
		out := map[string]interface{}{}
		for i := 0; i < s.NumFields() && i < len(sv.F); i++ {
			if strings.HasPrefix(s.Field(i).Name(), "XXX_") {
				continue
			}
			fv, ok := rp.concretize(st, sv.F[i], s.Field(i).Type())
			if !ok {
				return nil, false
			}
			out[s.Field(i).Name()] = fv
		}
		return out, true
	case kList:
		l, ok := v.(VList)
		if !ok {
			return nil, false
		}
		n, ok := m.boundedLen(l.Len, replayMaxList)
		if !ok {
			return nil, false
		}
		out := []interface{}{}
		et := t.Underlying().(*types.Slice).Elem()
		if rp.twins {
			for i := 1; i < n; i++ {
				var same []*Term
				for _, col := range l.Cols {
					same = append(same, Eq(Select(col, BV(64, int64(i))), Select(col, BV(64, 0))))
				}
				m.prefer([]*Term{And(same...)})
			}
		}
		for i := 0; i < n; i++ {
			ev, ok := rp.concretize(st, ex.listElem(st, &l, BV(64, int64(i))), et)
			if !ok {
				return nil, false
			}
			out = append(out, ev)
		}
		return out, true
	}
	return nil, false
}

func (rp *replayer) readBytes(arr, off *Term, n int) ([]byte, bool) {
	bs := make([]byte, n)
	for lo := 0; lo < n; lo += 256 {
		hi := lo + 256
		if hi > n {
			hi = n
		}
		var ts, pref []*Term
		for i := lo; i < hi; i++ {
			b := Select(arr, BVAdd(off, BV(64, int64(i))))
			ts = append(ts, b)
			// a telling model has pairwise different bytes where the query leaves them free
			pref = append(pref, Eq(b, BV(8, int64((i*7+rp.salt*31+13)%251))))
		}
		rp.salt++
		if !rp.twins {
			rp.m.prefer(pref)
		}
		vs, ok := rp.m.values(ts)
		if !ok {
			return nil, false
		}
		for i, v := range vs {
			bs[lo+i] = byte(v.Int64())
		}
	}
	return bs, true
}

// pinValue: the facts "v (of Go type t) is the concrete value j".
func (rp *replayer) pinValue(st *State, v Value, t types.Type, j interface{}) []*Term {
	ex := rp.ex
	hexOf := func(j interface{}) ([]byte, bool) {
		mm, ok := j.(map[string]interface{})
		if !ok {
			return nil, false
		}
		s, _ := mm["hex"].(string)
		b, err := hex.DecodeString(s)
		return b, err == nil
	}
	switch classify(t) {
	case kBool:
		b, _ := j.(bool)
		if b {
			return []*Term{v.(VBool).T}
		}
		return []*Term{Not(v.(VBool).T)}
	case kInt:
		s, _ := j.(string)
		n, ok := new(big.Int).SetString(s, 10)
		if !ok {
			return []*Term{TFalse}
		}
		x := v.(VBV)
		if n.Sign() < 0 {
			n = new(big.Int).Add(n, new(big.Int).Lsh(big.NewInt(1), uint(x.T.Width())))
		}
		return []*Term{Eq(x.T, BVBig(x.T.Width(), n))}
	case kStr:
		b, ok := hexOf(j)
		if !ok {
			return []*Term{TFalse}
		}
		return []*Term{Eq(v.(VStr).T, BytesConst(string(b)))}
	case kBytes:
		s := v.(VSlice)
		if j == nil {
			return []*Term{s.Nil, Eq(s.Len, BV(64, 0))}
		}
		b, ok := hexOf(j)
		if !ok {
			return []*Term{TFalse}
		}
		return []*Term{Not(s.Nil), Eq(ex.snapshot(st, s), BytesConst(string(b)))}
	case kBig:
		x := v.(VBig)
		if j == nil {
			return []*Term{x.Nil}
		}
		mm, _ := j.(map[string]interface{})
		ds, _ := mm["dec"].(string)
		n, ok := new(big.Int).SetString(ds, 10)
		if !ok {
			return []*Term{TFalse}
		}
		if n.Sign() < 0 {
			n = new(big.Int).Add(n, new(big.Int).Lsh(big.NewInt(1), uint(bigW)))
		}
		return []*Term{Not(x.Nil), Eq(x.V, BVBig(bigW, n))}
	case kErr:
		e, ok := v.(VErr)
		if !ok {
			return nil
		}
		if j == nil {
			return []*Term{Not(e.Is)}
		}
		return []*Term{e.Is}
	case kPtr:
		p := v.(VPtr)
		if j == nil {
			if p.NilT != nil {
				return []*Term{p.NilT}
			}
			return []*Term{TFalse}
		}
		var out []*Term
		if p.NilT != nil && p.NilT != TFalse {
			out = append(out, Not(p.NilT))
		}
		return append(out, rp.pinValue(st, ex.specLoad(st, p), t.(*types.Pointer).Elem(), j)...)
	case kStruct:
		sv, ok := v.(VStruct)
		mm, ok2 := j.(map[string]interface{})
		if !ok || !ok2 {
			return []*Term{TFalse}
		}
		s := t.Underlying().(*types.Struct)
		var out []*Term
		for i := 0; i < s.NumFields() && i < len(sv.F); i++ {
			if fj, ok := mm[s.Field(i).Name()]; ok {
				out = append(out, rp.pinValue(st, sv.F[i], s.Field(i).Type(), fj)...)
			}
		}
		return out
	case kList:
		l, ok := v.(VList)
		arr, ok2 := j.([]interface{})
		if j == nil {
			arr, ok2 = []interface{}{}, true
		}
		if !ok || !ok2 {
			return []*Term{TFalse}
		}
		out := []*Term{Eq(l.Len, BV(64, int64(len(arr))))}
		et := t.Underlying().(*types.Slice).Elem()
		for i, ej := range arr {
			out = append(out, rp.pinValue(st, ex.listElem(st, &l, BV(64, int64(i))), et, ej)...)
		}
		return out
	}
	return nil
}

// ---- running the real function

type replayer struct {
	w     *World
	ex    *Exec
	m     *modelSession
	salt  int
	lastInputs []interface{}
	maxListLen int
	judgeMs    int
	twins bool // second strategy: prefer list elements equal to the first one (colliding entries) over diverse bytes
}

const replayHelpers = `
func govcReplayFill(v reflect.Value, j interface{}) {
	t := v.Type()
	if t.PkgPath() == "cosmossdk.io/math" && t.Name() == "Int" {
		if j == nil {
			return
		}
		n, _ := new(big.Int).SetString(j.(map[string]interface{})["dec"].(string), 10)
		v.Set(reflect.ValueOf(sdkmath.NewIntFromBigInt(n)))
		return
	}
	switch v.Kind() {
	case reflect.Bool:
		v.SetBool(j.(bool))
	case reflect.Int, reflect.Int8, reflect.Int16, reflect.Int32, reflect.Int64:
		n, _ := new(big.Int).SetString(j.(string), 10)
		v.SetInt(n.Int64())
	case reflect.Uint, reflect.Uint8, reflect.Uint16, reflect.Uint32, reflect.Uint64:
		n, _ := new(big.Int).SetString(j.(string), 10)
		v.SetUint(n.Uint64())
	case reflect.String:
		b, _ := hex.DecodeString(j.(map[string]interface{})["hex"].(string))
		v.SetString(string(b))
	case reflect.Slice:
		if j == nil {
			return
		}
		if t.Elem().Kind() == reflect.Uint8 {
			b, _ := hex.DecodeString(j.(map[string]interface{})["hex"].(string))
			if b == nil {
				b = []byte{}
			}
			v.SetBytes(b)
			return
		}
		arr := j.([]interface{})
		s := reflect.MakeSlice(t, len(arr), len(arr))
		for i := range arr {
			govcReplayFill(s.Index(i), arr[i])
		}
		v.Set(s)
	case reflect.Ptr:
		if j == nil {
			return
		}
		if t.Elem().PkgPath() == "math/big" && t.Elem().Name() == "Int" {
			n, _ := new(big.Int).SetString(j.(map[string]interface{})["dec"].(string), 10)
			v.Set(reflect.ValueOf(n))
			return
		}
		p := reflect.New(t.Elem())
		govcReplayFill(p.Elem(), j)
		v.Set(p)
	case reflect.Struct:
		m := j.(map[string]interface{})
		for i := 0; i < t.NumField(); i++ {
			if fj, ok := m[t.Field(i).Name]; ok && v.Field(i).CanSet() {
				govcReplayFill(v.Field(i), fj)
			}
		}
	}
}

func govcReplayDump(v reflect.Value) interface{} {
	if !v.IsValid() {
		return nil
	}
	t := v.Type()
	if t.PkgPath() == "cosmossdk.io/math" && t.Name() == "Int" {
		x := v.Interface().(sdkmath.Int)
		if x.IsNil() {
			return nil
		}
		return map[string]interface{}{"dec": x.String()}
	}
	switch v.Kind() {
	case reflect.Bool:
		return v.Bool()
	case reflect.Int, reflect.Int8, reflect.Int16, reflect.Int32, reflect.Int64:
		return fmt.Sprint(v.Int())
	case reflect.Uint, reflect.Uint8, reflect.Uint16, reflect.Uint32, reflect.Uint64:
		return fmt.Sprint(v.Uint())
	case reflect.String:
		return map[string]interface{}{"hex": hex.EncodeToString([]byte(v.String()))}
	case reflect.Slice:
		if v.IsNil() {
			return nil
		}
		if t.Elem().Kind() == reflect.Uint8 {
			return map[string]interface{}{"hex": hex.EncodeToString(v.Bytes())}
		}
		out := []interface{}{}
		for i := 0; i < v.Len(); i++ {
			out = append(out, govcReplayDump(v.Index(i)))
		}
		return out
	case reflect.Ptr:
		if v.IsNil() {
			return nil
		}
		if t.Elem().PkgPath() == "math/big" && t.Elem().Name() == "Int" {
			return map[string]interface{}{"dec": v.Interface().(*big.Int).String()}
		}
		return govcReplayDump(v.Elem())
	case reflect.Interface:
		if v.IsNil() {
			return nil
		}
		if e, ok := v.Interface().(error); ok {
			return map[string]interface{}{"error": e.Error()}
		}
		return govcReplayDump(v.Elem())
	case reflect.Struct:
		out := map[string]interface{}{}
		for i := 0; i < t.NumField(); i++ {
			if t.Field(i).PkgPath != "" || strings.HasPrefix(t.Field(i).Name, "XXX_") {
				continue
			}
			out[t.Field(i).Name] = govcReplayDump(v.Field(i))
		}
		return out
	}
	return fmt.Sprint(v.Interface())
}
`

// testSource renders the injected test for fn with the given inputs.
func (rp *replayer) testSource(fn *ssa.Function, batch [][]interface{}) (src string, pkgDir string) {
	pkg := fn.Pkg.Pkg
	imports := map[string]string{} // path -> name
	qual := func(p *types.Package) string {
		if p == pkg {
			return ""
		}
		name := p.Name()
		if p.Path() == "cosmossdk.io/math" {
			name = "sdkmath"
		}
		imports[p.Path()] = name
		return name
	}
	var decl, fill, argNames []string
	for i, p := range fn.Params {
		ts := types.TypeString(p.Type(), qual)
		decl = append(decl, fmt.Sprintf("\tvar a%d %s", i, ts))
		fill = append(fill, fmt.Sprintf("\tgovcReplayFill(reflect.ValueOf(&a%d).Elem(), in[%d])", i, i))
		argNames = append(argNames, fmt.Sprintf("a%d", i))
	}
	call := ""
	if fn.Signature.Recv() != nil {
		call = fmt.Sprintf("a0.%s(%s)", fn.Name(), strings.Join(argNames[1:], ", "))
	} else {
		call = fmt.Sprintf("%s(%s)", fn.Name(), strings.Join(argNames, ", "))
	}
	nres := fn.Signature.Results().Len()
	var lhs, dump []string
	for i := 0; i < nres; i++ {
		lhs = append(lhs, fmt.Sprintf("r%d", i))
		dump = append(dump, fmt.Sprintf("\t\tout[\"r%d\"] = govcReplayDump(reflect.ValueOf(&r%d).Elem())", i, i))
	}
	assign := call
	if nres > 0 {
		assign = strings.Join(lhs, ", ") + " := " + call
	}
	inJSON, _ := json.Marshal(batch)
	var imp []string
	for p, n := range imports {
		imp = append(imp, fmt.Sprintf("\t%s %q", n, p))
	}
	if _, ok := imports["cosmossdk.io/math"]; !ok {
		imp = append(imp, "\tsdkmath \"cosmossdk.io/math\"")
	}
	sort.Strings(imp)
	var sb strings.Builder
	fmt.Fprintf(&sb, "package %s\n\n// Injected by govc (go test -overlay); not part of the repository.\n\nimport (\n\t\"encoding/hex\"\n\t\"encoding/json\"\n\t\"fmt\"\n\t\"math/big\"\n\t\"reflect\"\n\t\"strings\"\n\t\"testing\"\n\n%s\n)\n\nvar _ = strings.HasPrefix\nvar _ = big.NewInt\nvar _ sdkmath.Int\n", pkg.Name(), strings.Join(imp, "\n"))
	sb.WriteString(replayHelpers)
	fmt.Fprintf(&sb, "\nfunc TestGovcReplay(t *testing.T) {\n\tvar batch [][]interface{}\n\tif err := json.Unmarshal([]byte(%q), &batch); err != nil {\n\t\tt.Fatal(err)\n\t}\n\tfor _, in := range batch {\n\t\tgovcReplayOne(in)\n\t}\n}\n\nfunc govcReplayOne(in []interface{}) {\n%s\n%s\n\tout := map[string]interface{}{}\n\tfunc() {\n\t\tdefer func() {\n\t\t\tif r := recover(); r != nil {\n\t\t\t\tout[\"panic\"] = fmt.Sprint(r)\n\t\t\t}\n\t\t}()\n\t\t%s\n%s\n\t}()\n\tb, _ := json.Marshal(out)\n\tfmt.Println(\"GOVC-REPLAY \" + string(b))\n}\n",
		string(inJSON), strings.Join(decl, "\n"), strings.Join(fill, "\n"), assign, strings.Join(dump, "\n"))
	rel := strings.TrimPrefix(pkg.Path(), "github.com/circlefin/noble-cctp")
	return sb.String(), filepath.Join(repoDir(), rel)
}

// runReal injects the test and runs it; returns the dumped outputs.
func (rp *replayer) runReal(src, pkgDir string) ([]map[string]interface{}, string) {
	dir, err := os.MkdirTemp(scratchDir, "replay")
	if err != nil {
		return nil, err.Error()
	}
	defer os.RemoveAll(dir)
	testFile := filepath.Join(dir, "zz_govc_replay_test.go")
	os.WriteFile(testFile, []byte(src), 0o644)
	ov, _ := json.Marshal(map[string]interface{}{"Replace": map[string]string{filepath.Join(pkgDir, "zz_govc_replay_test.go"): testFile}})
	ovFile := filepath.Join(dir, "overlay.json")
	os.WriteFile(ovFile, ov, 0o644)
	cmd := exec.Command("go", "test", "-overlay", ovFile, "-v", "-vet=off", "-count=1", "-timeout", "60s", "-run", "^TestGovcReplay$", ".")
	cmd.Dir = pkgDir
	cmd.Env = append(os.Environ(), "GOWORK=off", "GOFLAGS=-mod=readonly", "GOPROXY=off", "GOSUMDB=off", "GOTOOLCHAIN=local")
	outb, _ := cmd.CombinedOutput()
	out := string(outb)
	var all []map[string]interface{}
	for _, line := range strings.Split(out, "\n") {
		i := strings.Index(line, "GOVC-REPLAY ")
		if i < 0 {
			continue
		}
		var res map[string]interface{}
		if err := json.Unmarshal([]byte(line[i+len("GOVC-REPLAY "):]), &res); err != nil {
			return nil, err.Error()
		}
		all = append(all, res)
	}
	if len(all) == 0 {
		return nil, firstN(out, 600)
	}
	return all, ""
}

// tryReplay follows up a failed obligation; it sets o.replayed only for a confirmed concrete failing input.
func tryReplay(w *World, ex *Exec, o *Obligation) {
	defer func() {
		if r := recover(); r != nil {
			o.replayNote = "replay gave up: " + firstN(fmt.Sprint(r), 200)
		}
	}()
	fn := o.fnSSA
	if fn == nil || o.pre == nil || o.Goal == nil {
		return
	}
	if replayStart.IsZero() {
		replayStart = time.Now()
	}
	if time.Since(replayStart) > replayBudget {
		o.replayNote = "no concrete replay attempted: the replay time budget of this run is used up"
		return
	}
	if !replayable(fn) {
		o.replayNote = "no concrete replay: " + o.Fn + " takes keeper state, a context or dependencies (outside the replay harness's reach)"
		// still useful to a reader: the scalar inputs in a model of the query with the quantified axioms dropped.
		// Unconfirmed - nothing was run; library functions (bech32, keccak, ...) are free in that model.
		ctr := 0
		as, goal := propagate(o.Assumes, o.Goal)
		m := &modelSession{asserts: append(append([]*Term{}, as...), Not(extGoal(goal, true, &ctr))), without: o.Without}
		var ts []*Term
		var names []string
		for _, in := range o.Inputs {
			if (in.T.Sort == SBool || bvWidth(in.T.Sort) > 0) && len(ts) < 60 {
				ts = append(ts, in.T)
				names = append(names, in.Name)
			}
		}
		if vals, ok := m.values(ts); ok {
			cand := map[string]string{}
			for i, v := range vals {
				if ts[i].Sort == SBool {
					cand[names[i]] = fmt.Sprint(v.Sign() != 0)
				} else {
					cand[names[i]] = v.String()
				}
			}
			o.replayData = map[string]interface{}{"unconfirmed_candidate": cand,
				"note": "values of the scalar inputs in a model of the failed query with its quantified axioms dropped; not run against the code"}
		}
		return
	}
	c := ex.contracts[fnName(fn)]
	if c == nil {
		return
	}
	// the same preprocessing as for the proof attempt: unit propagation, and a byte-string disequality turned into
	// a differing length or a differing byte at a witness index
	ctr := 0
	as, goal := propagate(o.Assumes, o.Goal)
	base := append(append([]*Term{}, as...), Not(extGoal(goal, true, &ctr)))
	ex.noCheck++
	defer func() { ex.noCheck-- }()
	var seedInputs []interface{}
	for _, twins := range []bool{false, true} {
		rp := &replayer{w: w, ex: ex, m: &modelSession{asserts: base, without: o.Without}, twins: twins}
		if rp.attempt(fn, c, o) {
			return
		}
		if rp.lastInputs != nil {
			seedInputs = rp.lastInputs
		}
		if time.Since(replayStart) > replayBudget {
			return
		}
	}
	// third strategy: variations (boundary lengths and values, repeated list entries) of the candidate, run as one
	// batch; the verdict is the same - the real code's result makes an ensures clause provably false, or it panics
	if variationsUsed > 60*time.Second {
		return
	}
	for round := 0; round < 3 && !o.replayed && variationsUsed <= 60*time.Second; round++ {
		t0 := time.Now()
		rp := &replayer{w: w, ex: ex, m: &modelSession{asserts: base, without: o.Without}, judgeMs: 3000, salt: round}
		rp.variations(fn, c, o, seedInputs, t0)
		variationsUsed += time.Since(t0)
	}
}

// variations: a bounded, deterministic batch of inputs around the candidate (not a proof of anything when it finds
// nothing; a confirmed counterexample when it does).
var variationsUsed time.Duration

func (rp *replayer) variations(fn *ssa.Function, c *Contract, o *Obligation, seed []interface{}, started time.Time) {
	rng := uint64(0x9e3779b97f4a7c15) ^ uint64(solverSeed+1) ^ (uint64(rp.salt+1) * 0xbf58476d1ce4e5b9)
	next := func(n int) int {
		rng ^= rng << 13
		rng ^= rng >> 7
		rng ^= rng << 17
		return int(rng % uint64(n))
	}
	var gen func(t types.Type, depth int) interface{}
	byteLens := []int{0, 1, 2, 20, 31, 32, 33, 64, 115, 116, 117, 131, 132, 133, 248}
	mkBytes := func(n int) []byte {
		b := make([]byte, n)
		switch next(3) {
		case 0: // all zero
		case 1:
			for i := range b {
				b[i] = byte(i*7 + 13)
			}
		default:
			for i := range b {
				b[i] = byte(next(256))
			}
		}
		return b
	}
	gen = func(t types.Type, depth int) interface{} {
		switch classify(t) {
		case kBool:
			return next(2) == 0
		case kInt:
			w, signed := intInfo(t)
			max := new(big.Int).Sub(new(big.Int).Lsh(big.NewInt(1), uint(w)), big.NewInt(1))
			if signed {
				max.Rsh(max, 1)
			}
			opts := []*big.Int{big.NewInt(0), big.NewInt(1), big.NewInt(2), big.NewInt(4), big.NewInt(65), max, new(big.Int).Rsh(max, 1), big.NewInt(int64(next(1000)))}
			return opts[next(len(opts))].String()
		case kStr:
			switch next(6) {
			case 0:
				return map[string]interface{}{"hex": ""}
			case 1:
				return map[string]interface{}{"hex": hex.EncodeToString([]byte("0x"))}
			case 2:
				return map[string]interface{}{"hex": hex.EncodeToString([]byte("zz"))}
			default:
				n := []int{1, 2, 20, 32, 33, 36, 37, 48}[next(8)]
				sp := hex.EncodeToString(mkBytes(n))
				if next(2) == 0 {
					sp = "0x" + sp
				}
				return map[string]interface{}{"hex": hex.EncodeToString([]byte(sp))}
			}
		case kBytes:
			if next(8) == 0 {
				return nil
			}
			return map[string]interface{}{"hex": hex.EncodeToString(mkBytes(byteLens[next(len(byteLens))]))}
		case kBig:
			if next(8) == 0 {
				return nil
			}
			opts := []string{"0", "1", "5", "-1", "345678", "57896044618658097711785492504343953926634992332820282019728792003956564819973", "115792089237316195423570985008687907853269984665640564039457584007913129639935"}
			return map[string]interface{}{"dec": opts[next(len(opts))]}
		case kPtr:
			if depth > 0 && next(6) == 0 {
				return nil
			}
			return gen(t.(*types.Pointer).Elem(), depth+1)
		case kStruct:
			st := t.Underlying().(*types.Struct)
			out := map[string]interface{}{}
			for i := 0; i < st.NumFields(); i++ {
				if !strings.HasPrefix(st.Field(i).Name(), "XXX_") {
					out[st.Field(i).Name()] = gen(st.Field(i).Type(), depth+1)
				}
			}
			return out
		case kList:
			et := t.Underlying().(*types.Slice).Elem()
			n := next(4)
			if n < 2 && next(2) == 0 {
				n = 2 // lists with at least two entries are where duplicate handling shows
			}
			out := []interface{}{}
			for i := 0; i < n; i++ {
				if i > 0 && next(3) != 0 {
					out = append(out, out[0]) // a repeated entry
				} else {
					out = append(out, gen(et, depth+1))
				}
			}
			return out
		}
		return nil
	}
	// mix: keep parts of the model-guided candidate (it satisfies the early checks of the path), vary the others
	var mix func(sv interface{}, t types.Type, depth int) interface{}
	mix = func(sv interface{}, t types.Type, depth int) interface{} {
		if sv == nil {
			return gen(t, depth)
		}
		switch classify(t) {
		case kPtr:
			return mix(sv, t.(*types.Pointer).Elem(), depth+1)
		case kStruct:
			sm, ok := sv.(map[string]interface{})
			if !ok {
				return gen(t, depth)
			}
			st := t.Underlying().(*types.Struct)
			out := map[string]interface{}{}
			for i := 0; i < st.NumFields(); i++ {
				n := st.Field(i).Name()
				if strings.HasPrefix(n, "XXX_") {
					continue
				}
				out[n] = mix(sm[n], st.Field(i).Type(), depth+1)
			}
			return out
		case kList:
			if next(2) == 0 {
				return gen(t, depth)
			}
			return sv
		}
		if next(2) == 0 {
			return sv
		}
		return gen(t, depth)
	}
	const nVar = 48
	var batch [][]interface{}
	for k := 0; k < nVar; k++ {
		var in []interface{}
		for i, p := range fn.Params {
			if seed != nil && i < len(seed) {
				in = append(in, mix(seed[i], p.Type(), 0))
			} else {
				in = append(in, gen(p.Type(), 0))
			}
		}
		batch = append(batch, in)
	}
	src, pkgDir := rp.testSource(fn, batch)
	all, _ := rp.runReal(src, pkgDir)
	if len(all) != len(batch) {
		return
	}
	// successful calls first: most clauses say what holds on success
	order := make([]int, 0, len(all))
	isErr := func(res map[string]interface{}) bool {
		for name, v := range res {
			if m, ok := v.(map[string]interface{}); ok && strings.HasPrefix(name, "r") {
				if _, has := m["error"]; has {
					return true
				}
			}
		}
		return false
	}
	for k := range all {
		if !isErr(all[k]) {
			order = append(order, k)
		}
	}
	for k := range all {
		if isErr(all[k]) {
			order = append(order, k)
		}
	}
	for _, k := range order {
		res := all[k]
		if os.Getenv("GOVC_TRACE") != "" {
			ij, _ := json.Marshal(batch[k])
			rj, _ := json.Marshal(res)
			fmt.Fprintf(os.Stderr, "[trace] variation %d: in=%s out=%s\n", k, firstN(string(ij), 700), firstN(string(rj), 200))
		}
		if variationsUsed+time.Since(started) > 60*time.Second {
			return
		}
		confirm := func(note string, clause string) {
			one, _ := rp.testSource(fn, [][]interface{}{batch[k]})
			o.replayed = true
			o.replayNote = note
			o.replayData = map[string]interface{}{"function": fnName(fn), "inputs": batch[k], "observed": res, "go_test": one,
				"found_by": "a bounded batch of variations around the model-guided candidate (boundary lengths and values, repeated entries)"}
			if clause != "" {
				o.replayData["refuted_clause"] = clause
			}
		}
		if pm, ok := res["panic"]; ok {
			if o.Kind == "nopanic" || o.Kind == "requires" {
				confirm(fmt.Sprintf("confirmed on the real code: %s panics on this input: %v", fnName(fn), pm), "")
				return
			}
			continue
		}
		if o.Kind == "nopanic" {
			continue
		}
		for _, cl := range c.byKind("ensures") {
			if ok, why := rp.clauseRefuted(fn, c, o, cl, batch[k], res); ok {
				confirm(fmt.Sprintf("confirmed on the real code: for this input the observed result makes ensures[%s] false (%s)", cl.Label, why), cl.Text)
				return
			}
		}
	}
}

// attempt: one candidate input (under one preference strategy), run on the real code, judged.
func (rp *replayer) attempt(fn *ssa.Function, c *Contract, o *Obligation) bool {
	var inputs []interface{}
	for i, p := range fn.Params {
		j, ok := rp.concretize(o.pre, o.args[i], p.Type())
		if !ok {
			o.replayNote = fmt.Sprintf("no candidate input: the solver gave no model for parameter %s even with the quantified axioms dropped (%d solver calls)", p.Name(), rp.m.calls)
			return false
		}
		inputs = append(inputs, j)
	}
	repaired := rp.repairInputs(fn, o, inputs)
	rp.lastInputs = inputs
	src, pkgDir := rp.testSource(fn, [][]interface{}{inputs})
	all, errText := rp.runReal(src, pkgDir)
	data := map[string]interface{}{"function": fnName(fn), "inputs": inputs, "model_solver_calls": rp.m.calls, "go_test": src}
	if len(repaired) > 0 {
		data["inputs_made_realistic"] = repaired
	}
	o.replayData = data
	if len(all) != 1 {
		o.replayNote = "candidate input found but the injected test did not run: " + errText
		return false
	}
	res := all[0]
	data["observed"] = res
	if pm, ok := res["panic"]; ok {
		if o.Kind == "nopanic" || o.Kind == "requires" {
			o.replayed = true
			o.replayNote = fmt.Sprintf("confirmed on the real code: %s panics on the candidate input: %v", fnName(fn), pm)
			return true
		}
		o.replayNote = fmt.Sprintf("the real code panics on the candidate input (%v); that is a C20 matter, this obligation is not decided by it", pm)
		return false
	}
	if o.Kind == "nopanic" {
		o.replayNote = "candidate input did not reproduce: the real code does not panic on it (the dropped axioms allowed a spurious model)"
		return false
	}
	// verdict by the contract: is some ensures clause provably false for (input, observed output)?
	for _, cl := range c.byKind("ensures") {
		if ok, why := rp.clauseRefuted(fn, c, o, cl, inputs, res); ok {
			o.replayed = true
			o.replayNote = fmt.Sprintf("confirmed on the real code: for the candidate input the observed result makes ensures[%s] false (%s)", cl.Label, why)
			data["refuted_clause"] = cl.Text
			return true
		}
	}
	o.replayNote = "candidate input did not reproduce: no ensures clause is provably false for the observed result"
	return false
}

// repairInputs: with the axioms dropped the model interprets hexdec / fromHex freely, so a string parameter s with
// "hexdec(s) = these 33 bytes" in the model need not be a hex string at all. Where a string parameter occurs as
// hexdec(s), hexdec(trimPrefix(s, "0x")) or fromHex(s), s is replaced by the real hex spelling of the bytes the model
// gives to that application - an input on which the real function computes what the model assumed.
func (rp *replayer) repairInputs(fn *ssa.Function, o *Obligation, inputs []interface{}) []string {
	var done []string
	paramOf := map[*Term]int{}
	for i := range fn.Params {
		if v, ok := o.args[i].(VStr); ok {
			paramOf[v.T] = i
		}
	}
	if len(paramOf) == 0 {
		return nil
	}
	seen := map[*Term]bool{}
	var apps []*Term
	var walk func(t *Term)
	walk = func(t *Term) {
		if seen[t] {
			return
		}
		seen[t] = true
		if t.Op == "app" && (t.Name == "hexdec" || t.Name == "fromHex") && len(t.Args) == 1 {
			apps = append(apps, t)
		}
		for _, a := range t.Args {
			walk(a)
		}
	}
	for _, a := range rp.m.asserts {
		walk(a)
	}
	for _, app := range apps {
		arg := app.Args[0]
		prefix := ""
		if arg.Op == "app" && arg.Name == "trimPrefix" && len(arg.Args) == 2 {
			if _, isParam := paramOf[arg.Args[0]]; isParam && arg.Args[1] == BytesConst("0x") {
				arg = arg.Args[0]
			}
		}
		idx, isParam := paramOf[arg]
		if !isParam {
			continue
		}
		n, ok := rp.m.boundedLen(Blen(app), 64)
		if !ok {
			continue
		}
		bs, ok := rp.readBytes(Barr(app), BV(64, 0), n)
		if !ok {
			continue
		}
		spelled := prefix + hex.EncodeToString(bs)
		inputs[idx] = map[string]interface{}{"hex": hex.EncodeToString([]byte(spelled))}
		done = append(done, fmt.Sprintf("%s := %q (the model has %s(...) = %x)", fn.Params[idx].Name(), spelled, app.Name, bs))
	}
	return done
}

// literal builds the constant Value of Go type t described by j.
func (rp *replayer) literal(st *State, t types.Type, j interface{}) Value {
	ex := rp.ex
	hexOf := func(j interface{}) []byte {
		mm, _ := j.(map[string]interface{})
		s, _ := mm["hex"].(string)
		b, _ := hex.DecodeString(s)
		return b
	}
	decOf := func(s string, w int) *big.Int {
		n, ok := new(big.Int).SetString(s, 10)
		if !ok {
			panic("bad number in replay data")
		}
		if n.Sign() < 0 {
			n = new(big.Int).Add(n, new(big.Int).Lsh(big.NewInt(1), uint(w)))
		}
		return n
	}
	switch classify(t) {
	case kBool:
		b, _ := j.(bool)
		return VBool{Bool(b)}
	case kInt:
		w, signed := intInfo(t)
		s, _ := j.(string)
		return VBV{BVBig(w, decOf(s, w)), signed}
	case kStr:
		return VStr{BytesConst(string(hexOf(j)))}
	case kBytes:
		if j == nil {
			return VSlice{Obj: -1, Off: BV(64, 0), Len: BV(64, 0), Cap: BV(64, 0), Nil: TTrue}
		}
		return ex.sliceOf(st, BytesConst(string(hexOf(j))), TFalse)
	case kBig:
		if j == nil {
			return VBig{Nil: TTrue, V: BV(bigW, 0)}
		}
		mm, _ := j.(map[string]interface{})
		ds, _ := mm["dec"].(string)
		return VBig{Nil: TFalse, V: BVBig(bigW, decOf(ds, bigW))}
	case kErr:
		return VErr{Bool(j != nil)}
	case kPtr:
		et := t.(*types.Pointer).Elem()
		if j == nil {
			return VPtr{Cell: ex.newCell(st, ex.zero(st, et, 0)), NilT: TTrue}
		}
		return VPtr{Cell: ex.newCell(st, rp.literal(st, et, j)), NilT: TFalse}
	case kStruct:
		s := t.Underlying().(*types.Struct)
		mm, _ := j.(map[string]interface{})
		sv := VStruct{T: t}
		for i := 0; i < s.NumFields(); i++ {
			if fj, ok := mm[s.Field(i).Name()]; ok {
				sv.F = append(sv.F, rp.literal(st, s.Field(i).Type(), fj))
			} else {
				sv.F = append(sv.F, ex.zero(st, s.Field(i).Type(), 0))
			}
		}
		return sv
	case kList:
		et := t.Underlying().(*types.Slice).Elem()
		l := ex.emptyList(et)
		arr, _ := j.([]interface{})
		if len(arr) > rp.maxListLen {
			rp.maxListLen = len(arr)
		}
		for _, ej := range arr {
			l = ex.listAppend(st, l, rp.literal(st, et, ej))
		}
		// ground terms for every entry, so that quantified clauses over the list's indices have instances to match
		for i := range arr {
			for name, col := range l.Cols {
				_, elemSort := arraySorts(col.Sort)
				st.assume(Eq(Fresh("lit."+name, elemSort), Select(col, BV(64, int64(i)))))
			}
			if w := 64; true {
				st.assume(App(fmt.Sprintf("trig%d", w), SBool, BV(64, int64(i))))
			}
		}
		return l
	}
	panic("replay: no literal for " + typeShort(t))
}

// clauseRefuted: with the parameters and results replaced by the concrete input and the observed output, is the
// clause provably false (and are the contract's preconditions provably true for this input)?
func (rp *replayer) clauseRefuted(fn *ssa.Function, c *Contract, o *Obligation, cl *Clause, inputs []interface{}, res map[string]interface{}) (bool, string) {
	ex := rp.ex
	st := ex.newState("rp")
	var largs []Value
	for i, p := range fn.Params {
		largs = append(largs, rp.literal(st, p.Type(), inputs[i]))
	}
	vars, err := ex.bindContract(c, fn, largs)
	if err != nil {
		return false, ""
	}
	// spec functions of the contract file may name parameters (the receiver) by their source names
	for i, p := range fn.Params {
		if _, ok := vars[p.Name()]; !ok {
			vars[p.Name()] = largs[i]
		}
	}
	pre := st.clone()
	solve := func(st *State, goal *Term) string {
		if goal == TFalse {
			return "unsat"
		}
		as := append(append([]*Term{}, st.pc...), goal)
		as = append(as, canonFacts(as)...)
		used := usedSymbols(as)
		for _, w := range c.Without {
			delete(used, w)
		}
		ms := rp.judgeMs
		if ms == 0 {
			ms = 10000
		}
		text := Script(as, buildPrelude(used), nil)
		r := Solve(text, ms)
		if k := os.Getenv("GOVC_KEEP"); k != "" && r.Status != "unsat" {
			os.WriteFile(filepath.Join(k, fmt.Sprintf("judge-%s-%d.smt2", r.Status, time.Now().UnixNano())), []byte(text), 0o644)
		}
		return r.Status
	}
	ctx0 := &EvalCtx{ex: ex, pre: pre, post: pre, vars: vars, bound: map[string]Value{}, fn: fn}
	trace := os.Getenv("GOVC_TRACE") != ""
	for _, rq := range c.byKind("requires") {
		t, err := ctx0.EvalBool(rq.E)
		if err != nil || (t != TTrue && solve(pre, Not(t)) != "unsat") {
			if trace {
				fmt.Fprintf(os.Stderr, "[trace] judge: requires[%s] not established (%v)\n", rq.Label, err)
			}
			return false, "" // the candidate is not shown to satisfy the contract's precondition: proves nothing
		}
	}
	for _, df := range c.byKind("defines") {
		if t, err := ctx0.EvalBool(df.E); err == nil {
			st.assume(t)
			for _, s := range ctx0.side {
				st.assume(s)
			}
			ctx0.side = nil
		}
	}
	rs := fn.Signature.Results()
	for i := 0; i < rs.Len() && i < len(c.Results); i++ {
		vars[c.Results[i]] = rp.literal(st, rs.At(i).Type(), res[fmt.Sprintf("r%d", i)])
	}
	ctx := &EvalCtx{ex: ex, pre: pre, post: st, vars: vars, bound: map[string]Value{}, fn: fn}
	t, err2 := ctx.EvalBool(cl.E)
	if err2 != nil {
		if trace {
			fmt.Fprintf(os.Stderr, "[trace] judge: ensures[%s] cannot be evaluated: %v\n", cl.Label, err2)
		}
		return false, ""
	}
	for _, s := range ctx.side {
		st.assume(s)
	}
	if t == TTrue {
		return false, "" // the clause holds on these constants
	}
	facts := st.clone() // the input/output facts alone, for the vacuity check below
	// instances of the clause's index quantifiers at the positions the literal lists actually have: consequences of
	// the clause, stated so that the solver need not guess them
	if n := rp.maxListLen; n > 0 && n <= 4 {
		gi := groundInstances(t, n, 0)
		if trace {
			fmt.Fprintf(os.Stderr, "[trace] judge: ensures[%s]: %d ground instances (lists up to %d), clause op %s\n", cl.Label, len(gi), n, t.Op)
		}
		for _, g := range gi {
			if g != t {
				st.assume(g)
			}
		}
	}
	if r := solve(st, t); r != "unsat" {
		if trace {
			fmt.Fprintf(os.Stderr, "[trace] judge: ensures[%s] not refuted (%s)\n", cl.Label, r)
		}
		return false, ""
	}
	if solve(facts, Not(t)) == "unsat" {
		return false, "" // contradictory facts: a vacuous refutation
	}
	how := "the clause evaluates to false on these constants"
	if t != TFalse {
		how = "solver: the clause is unsatisfiable for these constants"
	}
	return true, how
}

// cmdReplay re-runs a recorded replay against the current tree: govc replay <replay file>.
func cmdReplay(args []string) int {
	if len(args) != 1 {
		fmt.Println("usage: govc replay <file under replays/>")
		return 2
	}
	data, err := os.ReadFile(args[0])
	if err != nil {
		fmt.Println(err)
		return 2
	}
	var rec map[string]interface{}
	if err := json.Unmarshal(data, &rec); err != nil {
		fmt.Println(err)
		return 2
	}
	fmt.Printf("property %v, obligation %v\n  clause: %v\n  solver: %v (%v)\n", rec["property"], rec["obligation"], rec["clause"], rec["solver_status"], firstN(fmt.Sprint(rec["solver_output"]), 300))
	rp, _ := rec["replay"].(map[string]interface{})
	src, _ := rp["go_test"].(string)
	if src == "" {
		fmt.Printf("  no concrete input was recorded for this obligation: %v\n", rec["replay_result"])
		return 1
	}
	fnKey, _ := rp["function"].(string)
	rel := map[string]string{"types": "x/cctp/types", "keeper": "x/cctp/keeper", "cli": "x/cctp/client/cli", "cctp": "x/cctp"}[strings.SplitN(fnKey, ".", 2)[0]]
	r := &replayer{}
	allRes, errText := r.runReal(src, filepath.Join(repoDir(), rel))
	var res map[string]interface{}
	if len(allRes) > 0 {
		res = allRes[0]
	}
	in, _ := json.Marshal(rp["inputs"])
	fmt.Printf("  function: %s\n  input:    %s\n", fnKey, in)
	if res == nil {
		fmt.Println("  the injected test did not run:", errText)
		return 2
	}
	out, _ := json.Marshal(res)
	fmt.Printf("  observed on the current tree: %s\n  recorded verdict: %v\n", out, rec["replay_result"])
	if cl, ok := rp["refuted_clause"]; ok {
		fmt.Printf("  refuted clause: %v\n", cl)
	}
	return 1
}

// groundInstances: consequences of t obtained by instantiating its (possibly nested, possibly guarded) universal
// quantifiers over 64-bit index variables at 0..n-1.
func groundInstances(t *Term, n int, depth int) []*Term {
	if depth > 3 {
		return []*Term{t}
	}
	switch t.Op {
	case "forall":
		for _, b := range t.Bound {
			if b.Sort != SBV(64) {
				return []*Term{t}
			}
		}
		var out []*Term
		var rec func(i int, sub map[*Term]*Term)
		rec = func(i int, sub map[*Term]*Term) {
			if len(out) > 64 {
				return
			}
			if i == len(t.Bound) {
				out = append(out, groundInstances(Subst(t.Args[0], sub), n, depth+1)...)
				return
			}
			for v := 0; v < n; v++ {
				s2 := map[*Term]*Term{}
				for k, x := range sub {
					s2[k] = x
				}
				s2[t.Bound[i]] = BV(64, int64(v))
				rec(i+1, s2)
			}
		}
		rec(0, map[*Term]*Term{})
		return out
	case "=>":
		var out []*Term
		for _, g := range groundInstances(t.Args[1], n, depth) {
			out = append(out, Implies(t.Args[0], g))
		}
		return out
	case "and":
		var out []*Term
		for _, a := range t.Args {
			out = append(out, groundInstances(a, n, depth)...)
		}
		return out
	}
	return []*Term{t}
}
