package main

// Executor-level values and the symbolic state of one path.

import (
	"fmt"
	"go/types"
	"math/big"
	"strings"

	"golang.org/x/tools/go/ssa"
)

type Value interface{}

type VBool struct{ T *Term }
type VBV struct {
	T      *Term
	Signed bool
}
type VStr struct{ T *Term } // sort Bytes (canonical)

// VSlice is a []byte (or a named byte slice). Obj < 0 means "no backing object" (nil or empty).
type VSlice struct {
	Obj           int
	Off, Len, Cap *Term // BV64
	Nil           *Term // Bool
	// Whole, when set, is a canonical Bytes value such that this slice covered exactly
	// (barr Whole)[0:blen Whole] when it was created; valid while the object is unchanged.
	Whole *Term
}

// VBig is a math.Int or *big.Int: Nil flag and a 264-bit two's complement value.
type VBig struct {
	Nil *Term
	V   *Term
}

const bigW = 264

type VStruct struct {
	T types.Type
	F []Value
}
type VArray struct{ E []Value }

// VByteArr is the value stored in a cell of type [N]byte: it names a heap byte object.
type VByteArr struct {
	Obj int
	N   int
}

// VPtr points at (a sub-value of) a cell. Cell < 0 is the nil pointer.
// NilT is a symbolic nil flag (inputs such as query requests); nil otherwise.
type VPtr struct {
	Cell int // -1 nil, -2 read-only immediate value Val
	Path []int
	NilT *Term
	Val  Value
}
type VBytePtr struct {
	Obj int
	Idx *Term
}
type VErr struct{ Is *Term } // error interface value; Is = "non-nil"
type VIface struct {
	Dyn  Value
	DynT types.Type
}
type VOpaque struct{ Desc string }
type VTuple []Value

// VList is a slice of structs (or scalars) with symbolic length: one SMT array per leaf field.
type VList struct {
	ElemT types.Type
	Len   *Term
	Cols  map[string]*Term
}
type VListPtr struct {
	L   *VList
	Idx *Term
}

// VStore is a KV store handle: all keys are prefixed with Prefix (Bytes).
type VStore struct{ Prefix *Term }
type VIter struct {
	Prefix *Term
	Cell   int // cell holding the position (VBV)
}
type VClosure struct {
	Fn   *ssa.Function
	Bind []Value
}
type VMap struct{ Cell int } // map[string]struct{}: cell holds *Term (Array Bytes Bool) wrapped in VMapVal
type VMapVal struct{ Set *Term }

// ---- events and dependency calls

type Rec struct {
	Kind   string // event type name or dependency call name
	Fields map[string]Value
	Order  []string
}

type Frame struct {
	Fn   *ssa.Function
	Regs map[ssa.Value]Value
	// deferred calls
	Defers []*ssa.Defer
}

type objInfo struct {
	Size   *Term // BV64 capacity
	Opaque bool
	Name   string
}

type State struct {
	frames []*Frame
	cells  map[int]Value
	heap   map[int]*Term
	pc     []*Term
	abs    map[string]*Term // abstract state (L3) components
	rawHas *Term            // (Array Bytes Bool)    L2
	rawVal *Term            // (Array Bytes Bytes)   L2
	cnt    map[string]*Term // ghost cardinals of the five collections (L2: maintained by the store model)
	events []Rec
	calls  []Rec
	// tainted: a callee emitted/called something the contracts do not describe on this path
	evTaint, callTaint bool
	ext                *Term
	emitN              int
	callN              int
	pages              []*Term // prefixes of the stores handed to query.Paginate
	notes              []string
	loopSeen           map[*ssa.BasicBlock]int
	curLoop            *ssa.BasicBlock // header of the innermost loop whose body is being executed
	depth              int
}

func (s *State) clone() *State {
	n := &State{
		cells: make(map[int]Value, len(s.cells)), heap: make(map[int]*Term, len(s.heap)),
		abs: make(map[string]*Term, len(s.abs)), cnt: make(map[string]*Term, len(s.cnt)),
		rawHas: s.rawHas, rawVal: s.rawVal, ext: s.ext, emitN: s.emitN, callN: s.callN,
		evTaint: s.evTaint, callTaint: s.callTaint, depth: s.depth, curLoop: s.curLoop,
	}
	for k, v := range s.cells {
		n.cells[k] = v
	}
	for k, v := range s.heap {
		n.heap[k] = v
	}
	for k, v := range s.abs {
		n.abs[k] = v
	}
	for k, v := range s.cnt {
		n.cnt[k] = v
	}
	n.pc = append([]*Term(nil), s.pc...)
	n.events = append([]Rec(nil), s.events...)
	n.calls = append([]Rec(nil), s.calls...)
	n.notes = append([]string(nil), s.notes...)
	n.pages = append([]*Term(nil), s.pages...)
	n.loopSeen = map[*ssa.BasicBlock]int{}
	for k, v := range s.loopSeen {
		n.loopSeen[k] = v
	}
	for _, f := range s.frames {
		nf := &Frame{Fn: f.Fn, Regs: make(map[ssa.Value]Value, len(f.Regs)), Defers: append([]*ssa.Defer(nil), f.Defers...)}
		for k, v := range f.Regs {
			nf.Regs[k] = v
		}
		n.frames = append(n.frames, nf)
	}
	return n
}

func (s *State) assume(t *Term) {
	if t == TTrue {
		return
	}
	s.pc = append(s.pc, t)
}

func (s *State) top() *Frame { return s.frames[len(s.frames)-1] }

func (s *State) infeasible() bool {
	for _, t := range s.pc {
		if t == TFalse {
			return true
		}
	}
	return false
}

// ---- type classification

type kind int

const (
	kBool kind = iota
	kInt
	kStr
	kBytes  // []byte and named byte slices
	kBig    // math.Int, *big.Int
	kStruct // struct modelled field by field
	kPtr    // pointer to something modelled
	kErr
	kList   // slice of modelled elements
	kIface  // other interface
	kOpaque // not modelled
	kByteArr
	kArray
	kMap
	kFunc
	kTuple
)

func isNamed(t types.Type, pkg, name string) bool {
	n, ok := t.(*types.Named)
	if !ok {
		return false
	}
	o := n.Obj()
	return o.Name() == name && o.Pkg() != nil && o.Pkg().Path() == pkg
}

func isByte(t types.Type) bool {
	b, ok := t.Underlying().(*types.Basic)
	return ok && (b.Kind() == types.Uint8)
}

func classify(t types.Type) kind {
	if isNamed(t, "cosmossdk.io/math", "Int") {
		return kBig
	}
	if p, ok := t.(*types.Pointer); ok {
		if isNamed(p.Elem(), "math/big", "Int") {
			return kBig
		}
		return kPtr
	}
	if isNamed(t, "github.com/cosmos/cosmos-sdk/types", "Context") {
		return kOpaque
	}
	switch u := t.Underlying().(type) {
	case *types.Basic:
		switch {
		case u.Info()&types.IsBoolean != 0:
			return kBool
		case u.Info()&types.IsInteger != 0:
			return kInt
		case u.Info()&types.IsString != 0:
			return kStr
		case u.Kind() == types.UnsafePointer || u.Kind() == types.UntypedNil:
			return kOpaque
		}
		return kOpaque
	case *types.Slice:
		if isByte(u.Elem()) {
			return kBytes
		}
		return kList
	case *types.Struct:
		return kStruct
	case *types.Interface:
		if types.Identical(t, types.Universe.Lookup("error").Type()) {
			return kErr
		}
		return kIface
	case *types.Array:
		if isByte(u.Elem()) {
			return kByteArr
		}
		return kArray
	case *types.Map:
		return kMap
	case *types.Signature:
		return kFunc
	case *types.Tuple:
		return kTuple
	case *types.Pointer:
		return kPtr
	}
	return kOpaque
}

func intInfo(t types.Type) (w int, signed bool) {
	b := t.Underlying().(*types.Basic)
	switch b.Kind() {
	case types.Int8:
		return 8, true
	case types.Int16:
		return 16, true
	case types.Int32, types.UntypedRune:
		return 32, true
	case types.Int64, types.Int, types.UntypedInt:
		return 64, true
	case types.Uint8:
		return 8, false
	case types.Uint16:
		return 16, false
	case types.Uint32:
		return 32, false
	case types.Uint64, types.Uint, types.Uintptr:
		return 64, false
	}
	panic("intInfo: " + t.String())
}

func typeShort(t types.Type) string {
	s := types.TypeString(t, func(p *types.Package) string { return p.Name() })
	return s
}

func describe(v Value) string {
	switch x := v.(type) {
	case VBool:
		return "bool:" + x.T.String()
	case VBV:
		return "bv:" + x.T.String()
	case VStr:
		return "str:" + x.T.String()
	case VSlice:
		return fmt.Sprintf("slice(obj%d,off=%s,len=%s,nil=%s)", x.Obj, x.Off, x.Len, x.Nil)
	case VBig:
		return fmt.Sprintf("big(nil=%s,v=%s)", x.Nil, x.V)
	case VStruct:
		var fs []string
		for _, f := range x.F {
			fs = append(fs, describe(f))
		}
		return typeShort(x.T) + "{" + strings.Join(fs, ", ") + "}"
	case VPtr:
		return fmt.Sprintf("ptr(cell%d%v)", x.Cell, x.Path)
	case VErr:
		return "err:" + x.Is.String()
	case VOpaque:
		return "opaque(" + x.Desc + ")"
	case nil:
		return "<nil>"
	}
	return fmt.Sprintf("%T", v)
}

type bigInt = big.Int

var bigOne = big.NewInt(1)
