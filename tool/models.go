package main

// L0: assumed contracts of library functions and dependency interfaces, as executable models.
// Everything here is trusted, listed in every evidence file, and never counted as proved.

import (
	"fmt"
	"go/types"
	"strings"

	"golang.org/x/tools/go/ssa"
)

type l0model func(ex *Exec, st *State, cc *ssa.CallCommon, args []Value) []Value

var l0models map[string]l0model

// deterministic marks the L0 functions that are pure functions of their arguments and the chain state.
var l0nondeterministic = map[string]bool{}

func one(v Value) []Value { return []Value{v} }

func strOf(v Value) *Term {
	if s, ok := v.(VStr); ok {
		return s.T
	}
	panic(fmt.Sprintf("string expected, got %T", v))
}

func (ex *Exec) bytesOf(st *State, v Value) *Term {
	switch s := v.(type) {
	case VSlice:
		return ex.snapshot(st, s)
	case VStr:
		return s.T
	}
	panic(fmt.Sprintf("bytes expected, got %T", v))
}

func init() {
	errNonNil := func(ex *Exec, st *State, cc *ssa.CallCommon, args []Value) []Value { return one(VErr{TTrue}) }
	wrap := func(ex *Exec, st *State, cc *ssa.CallCommon, args []Value) []Value {
		// errors.Wrap(nil, ...) == nil
		if e, ok := args[0].(VErr); ok {
			return one(VErr{e.Is})
		}
		return one(VErr{TTrue})
	}
	opaque := func(desc string) l0model {
		return func(ex *Exec, st *State, cc *ssa.CallCommon, args []Value) []Value { return one(VOpaque{desc}) }
	}
	strFn := func(name string) l0model {
		return func(ex *Exec, st *State, cc *ssa.CallCommon, args []Value) []Value {
			return one(VStr{App(name, SBytes, strOf(args[0]))})
		}
	}
	storeGet := func(ex *Exec, st *State, cc *ssa.CallCommon, args []Value) []Value {
		s := args[0].(VStore)
		key := Cat(s.Prefix, ex.bytesOf(st, args[1]))
		has := Select(st.rawHas, key)
		content := Ite(has, Select(st.rawVal, key), EmptyBytes)
		return one(ex.sliceOf(st, content, Not(has)))
	}
	storeSet := func(ex *Exec, st *State, cc *ssa.CallCommon, args []Value) []Value {
		s := args[0].(VStore)
		k := ex.bytesOf(st, args[1])
		key := Cat(s.Prefix, k)
		v := args[2].(VSlice)
		// store.Set panics on a nil value and on an empty key
		ex.safe(st, "call:store.Set(nil value)", Not(v.Nil))
		ex.safe(st, "call:store.Set(empty key)", Neq(Blen(key), BV(64, 0)))
		had := Select(st.rawHas, key)
		ex.bumpCount(st, key, had, true)
		st.rawHas = Store(st.rawHas, key, TTrue)
		st.rawVal = Store(st.rawVal, key, ex.snapshot(st, v))
		return nil
	}
	storeDelete := func(ex *Exec, st *State, cc *ssa.CallCommon, args []Value) []Value {
		s := args[0].(VStore)
		key := Cat(s.Prefix, ex.bytesOf(st, args[1]))
		ex.safe(st, "call:store.Delete(empty key)", Neq(Blen(key), BV(64, 0)))
		had := Select(st.rawHas, key)
		ex.bumpCount(st, key, had, false)
		st.rawHas = Store(st.rawHas, key, TFalse)
		return nil
	}
	l0models = map[string]l0model{
		"github.com/cosmos/cosmos-sdk/types.UnwrapSDKContext":       opaque("sdkctx"),
		"(github.com/cosmos/cosmos-sdk/types.Context).EventManager": opaque("evmgr"),
		"github.com/cosmos/cosmos-sdk/types.GetConfig":              opaque("sdkconfig"),
		"invoke:log.Logger.With":                                    opaque("logger"),
		"fmt.Sprintf": func(ex *Exec, st *State, cc *ssa.CallCommon, a []Value) []Value {
			return one(VStr{ex.freshBytes(st, "sprintf")})
		},
		"cosmossdk.io/errors.Wrap":            wrap,
		"cosmossdk.io/errors.Wrapf":           wrap,
		"errors.New":                          errNonNil,
		"fmt.Errorf":                          errNonNil,
		"google.golang.org/grpc/status.Error": errNonNil, // codes passed are never codes.OK (checked syntactically below)
		"invoke:error.Error": func(ex *Exec, st *State, cc *ssa.CallCommon, a []Value) []Value {
			return one(VStr{ex.freshBytes(st, "errtext")})
		},
		"cosmossdk.io/errors.Register":                        opaque("registered-error"),
		"invoke:store.KVStoreService.OpenKVStore":             func(ex *Exec, st *State, cc *ssa.CallCommon, a []Value) []Value { return one(VStore{EmptyBytes}) },
		"github.com/cosmos/cosmos-sdk/runtime.KVStoreAdapter": func(ex *Exec, st *State, cc *ssa.CallCommon, a []Value) []Value { return one(a[0]) },
		"cosmossdk.io/store/prefix.NewStore": func(ex *Exec, st *State, cc *ssa.CallCommon, a []Value) []Value {
			parent := a[0].(VStore)
			return one(VStore{Cat(parent.Prefix, ex.bytesOf(st, a[1]))})
		},
		"(cosmossdk.io/store/prefix.Store).Get":    storeGet,
		"invoke:types.KVStore.Get":                 storeGet,
		"(cosmossdk.io/store/prefix.Store).Set":    storeSet,
		"invoke:types.KVStore.Set":                 storeSet,
		"(cosmossdk.io/store/prefix.Store).Delete": storeDelete,
		"invoke:types.KVStore.Delete":              storeDelete,
		"(cosmossdk.io/store/prefix.Store).Iterator": func(ex *Exec, st *State, cc *ssa.CallCommon, a []Value) []Value {
			s := a[0].(VStore)
			pos := ex.newCell(st, VBV{BV(64, 0), false})
			return one(VIter{Prefix: s.Prefix, Cell: pos})
		},
		"invoke:db.Iterator.Valid": func(ex *Exec, st *State, cc *ssa.CallCommon, a []Value) []Value {
			it := a[0].(VIter)
			pos := st.cells[it.Cell].(VBV).T
			return one(VBool{BVUlt(pos, ex.rangeCount(st, it.Prefix))})
		},
		"invoke:db.Iterator.Next": func(ex *Exec, st *State, cc *ssa.CallCommon, a []Value) []Value {
			it := a[0].(VIter)
			pos := st.cells[it.Cell].(VBV).T
			ex.safe(st, "call:Iterator.Next(invalid)", BVUlt(pos, ex.rangeCount(st, it.Prefix)))
			st.cells[it.Cell] = VBV{BVAdd(pos, BV(64, 1)), false}
			return nil
		},
		"invoke:db.Iterator.Value": func(ex *Exec, st *State, cc *ssa.CallCommon, a []Value) []Value {
			it := a[0].(VIter)
			pos := st.cells[it.Cell].(VBV).T
			ex.safe(st, "call:Iterator.Value(invalid)", BVUlt(pos, ex.rangeCount(st, it.Prefix)))
			key := rangeKeyTerm(st, it.Prefix, pos)
			return one(ex.sliceOf(st, Select(st.rawVal, key), TFalse))
		},
		"invoke:db.Iterator.Close": func(ex *Exec, st *State, cc *ssa.CallCommon, a []Value) []Value { return one(VErr{TFalse}) },
		"invoke:codec.BinaryCodec.MustMarshal": func(ex *Exec, st *State, cc *ssa.CallCommon, a []Value) []Value {
			return one(ex.marshal(st, a[1]))
		},
		"invoke:codec.BinaryCodec.MustUnmarshal": func(ex *Exec, st *State, cc *ssa.CallCommon, a []Value) []Value {
			ex.unmarshal(st, a[1].(VSlice), a[2])
			return nil
		},
		"invoke:codec.BinaryCodec.Unmarshal": func(ex *Exec, st *State, cc *ssa.CallCommon, a []Value) []Value {
			ex.unmarshal(st, a[1].(VSlice), a[2])
			return one(VErr{Fresh("unmarshalErr", SBool)})
		},
		"invoke:types.EventManagerI.EmitTypedEvent": func(ex *Exec, st *State, cc *ssa.CallCommon, a []Value) []Value {
			ex.recordEvent(st, a[1])
			e := Var(fmt.Sprintf("emitErr!%d", st.emitN), SBool)
			st.emitN++
			return one(VErr{e})
		},
		"github.com/cosmos/cosmos-sdk/types.AccAddressFromBech32": func(ex *Exec, st *State, cc *ssa.CallCommon, a []Value) []Value {
			s := strOf(a[0])
			ok := ValidBech32(s)
			bz := AccBytes(s)
			return []Value{ex.sliceOf(st, bz, Not(ok)), VErr{Not(ok)}}
		},
		"(github.com/cosmos/cosmos-sdk/types.AccAddress).String": func(ex *Exec, st *State, cc *ssa.CallCommon, a []Value) []Value {
			b := ex.bytesOf(st, a[0])
			return one(VStr{Ite(Eq(Blen(b), BV(64, 0)), EmptyBytes, App("bech32", SBytes, Var("acctPrefix", SBytes), b))})
		},
		"(*github.com/cosmos/cosmos-sdk/types.Config).GetBech32AccountAddrPrefix": func(ex *Exec, st *State, cc *ssa.CallCommon, a []Value) []Value {
			return one(VStr{Var("acctPrefix", SBytes)})
		},
		"github.com/cosmos/cosmos-sdk/types/bech32.ConvertAndEncode": func(ex *Exec, st *State, cc *ssa.CallCommon, a []Value) []Value {
			// 8->5 bit conversion with padding cannot fail; encoding fails only for an over-long or mixed-case prefix
			return []Value{VStr{App("bech32", SBytes, strOf(a[0]), ex.bytesOf(st, a[1]))}, VErr{TFalse}}
		},
		"github.com/cosmos/cosmos-sdk/types.Bech32ifyAddressBytes": func(ex *Exec, st *State, cc *ssa.CallCommon, a []Value) []Value {
			b := ex.bytesOf(st, a[1])
			p := strOf(a[0])
			empty := Eq(Blen(b), BV(64, 0))
			noPrefix := Eq(Blen(p), BV(64, 0))
			return []Value{VStr{Ite(Or(empty, noPrefix), EmptyBytes, App("bech32", SBytes, p, b))}, VErr{And(Not(empty), noPrefix)}}
		},
		"github.com/cosmos/cosmos-sdk/x/auth/types.NewModuleAddress": func(ex *Exec, st *State, cc *ssa.CallCommon, a []Value) []Value {
			return one(ex.sliceOf(st, App("moduleAddr", SBytes, strOf(a[0])), TFalse))
		},
		"strings.ToLower": strFn("lower"),
		"strings.EqualFold": func(ex *Exec, st *State, cc *ssa.CallCommon, a []Value) []Value {
			return one(VBool{App("foldEq", SBool, strOf(a[0]), strOf(a[1]))})
		},
		"bytes.HasPrefix": func(ex *Exec, st *State, cc *ssa.CallCommon, a []Value) []Value {
			s, p := ex.bytesOf(st, a[0]), ex.bytesOf(st, a[1])
			if n, ok := Blen(p).U64(); ok && n <= 64 {
				conj := []*Term{BVUge(Blen(s), BVU(64, n))}
				for i := uint64(0); i < n; i++ {
					conj = append(conj, Eq(Select(Barr(s), BVU(64, i)), Select(Barr(p), BVU(64, i))))
				}
				return one(VBool{And(conj...)})
			}
			return one(VBool{App("hasPrefixU", SBool, s, p)})
		},
		"github.com/cosmos/cosmos-sdk/types.MustAccAddressFromBech32": func(ex *Exec, st *State, cc *ssa.CallCommon, a []Value) []Value {
			s := strOf(a[0])
			ex.safe(st, "call:MustAccAddressFromBech32(invalid)", ValidBech32(s))
			return one(ex.sliceOf(st, AccBytes(s), TFalse))
		},
		"(github.com/cosmos/cosmos-sdk/types.AccAddress).Bytes": func(ex *Exec, st *State, cc *ssa.CallCommon, a []Value) []Value {
			return one(a[0])
		},
		"(github.com/cosmos/cosmos-sdk/types.AccAddress).Empty": func(ex *Exec, st *State, cc *ssa.CallCommon, a []Value) []Value {
			return one(VBool{Eq(Blen(ex.bytesOf(st, a[0])), BV(64, 0))})
		},
		"cosmossdk.io/math.ZeroInt": func(ex *Exec, st *State, cc *ssa.CallCommon, a []Value) []Value {
			return one(VBig{Nil: TFalse, V: BV(bigW, 0)})
		},
		"cosmossdk.io/math.OneInt": func(ex *Exec, st *State, cc *ssa.CallCommon, a []Value) []Value {
			return one(VBig{Nil: TFalse, V: BV(bigW, 1)})
		},
		"cosmossdk.io/math.NewInt": func(ex *Exec, st *State, cc *ssa.CallCommon, a []Value) []Value {
			return one(VBig{Nil: TFalse, V: SignExt(bigW, a[0].(VBV).T)})
		},
		"cosmossdk.io/math.NewIntFromUint64": func(ex *Exec, st *State, cc *ssa.CallCommon, a []Value) []Value {
			return one(VBig{Nil: TFalse, V: ZeroExt(bigW, a[0].(VBV).T)})
		},
		"strings.HasPrefix": func(ex *Exec, st *State, cc *ssa.CallCommon, a []Value) []Value {
			s, p := strOf(a[0]), strOf(a[1])
			if n, ok := Blen(p).U64(); ok && n <= 64 {
				conj := []*Term{BVUge(Blen(s), BVU(64, n))}
				for i := uint64(0); i < n; i++ {
					conj = append(conj, Eq(Select(Barr(s), BVU(64, i)), Select(Barr(p), BVU(64, i))))
				}
				return one(VBool{And(conj...)})
			}
			return one(VBool{App("hasPrefixU", SBool, s, p)})
		},
		"strings.TrimPrefix": func(ex *Exec, st *State, cc *ssa.CallCommon, a []Value) []Value {
			return one(VStr{App("trimPrefix", SBytes, strOf(a[0]), strOf(a[1]))})
		},
		"encoding/hex.EncodeToString": func(ex *Exec, st *State, cc *ssa.CallCommon, a []Value) []Value {
			return one(VStr{App("hexenc", SBytes, ex.bytesOf(st, a[0]))})
		},
		"encoding/hex.DecodeString": func(ex *Exec, st *State, cc *ssa.CallCommon, a []Value) []Value {
			s := strOf(a[0])
			bad := Not(App("validHex", SBool, s))
			return []Value{ex.sliceOf(st, App("hexdec", SBytes, s), TFalse), VErr{bad}}
		},
		"github.com/ethereum/go-ethereum/common.FromHex": func(ex *Exec, st *State, cc *ssa.CallCommon, a []Value) []Value {
			r := App("fromHex", SBytes, strOf(a[0]))
			nilT := Fresh("fromHex.nil", SBool)
			st.assume(Implies(nilT, Eq(Blen(r), BV(64, 0))))
			return one(ex.sliceOf(st, r, nilT))
		},
		"github.com/cosmos/btcutil/base58.Decode": func(ex *Exec, st *State, cc *ssa.CallCommon, a []Value) []Value {
			r := App("base58dec", SBytes, strOf(a[0]))
			return one(ex.sliceOf(st, r, TFalse))
		},
		"github.com/ethereum/go-ethereum/crypto.Keccak256": func(ex *Exec, st *State, cc *ssa.CallCommon, a []Value) []Value {
			vs, ok := a[0].(VVals)
			if !ok {
				return one(ex.freshSlice(st, "keccak?"))
			}
			data := EmptyBytes
			for _, v := range vs.E {
				data = Cat(data, ex.bytesOf(st, v))
			}
			return one(ex.sliceOf(st, keccak(data), TFalse))
		},
		"github.com/ethereum/go-ethereum/crypto.Ecrecover": func(ex *Exec, st *State, cc *ssa.CallCommon, a []Value) []Value {
			h, s := ex.bytesOf(st, a[0]), ex.bytesOf(st, a[1])
			ok := App("ecrecOK", SBool, h, s)
			key := App("ecrecKey", SBytes, h, s)
			return []Value{ex.sliceOf(st, Ite(ok, key, EmptyBytes), Not(ok)), VErr{Not(ok)}}
		},
		"github.com/ethereum/go-ethereum/crypto.PubkeyToAddress": func(ex *Exec, st *State, cc *ssa.CallCommon, a []Value) []Value {
			pk := a[0].(VStruct)
			var xs, ys VBig
			s := pk.T.Underlying().(*types.Struct)
			for i := 0; i < s.NumFields(); i++ {
				switch s.Field(i).Name() {
				case "X":
					xs = pk.F[i].(VBig)
				case "Y":
					ys = pk.F[i].(VBig)
				}
			}
			// PubkeyToAddress dereferences X and Y
			ex.safe(st, "call:PubkeyToAddress(nil X/Y)", And(Not(xs.Nil), Not(ys.Nil)))
			addr := App("addrOf", SBytes, xs.V, ys.V)
			obj := ex.newObj(BV(64, 20), "addr")
			st.heap[obj] = Barr(addr)
			return one(VByteArr{Obj: obj, N: 20})
		},
		"(github.com/ethereum/go-ethereum/common.Address).Bytes": func(ex *Exec, st *State, cc *ssa.CallCommon, a []Value) []Value {
			ar := a[0].(VByteArr)
			return one(VSlice{Obj: ar.Obj, Off: BV(64, 0), Len: BV(64, 20), Cap: BV(64, 20), Nil: TFalse})
		},
		"bytes.Equal": func(ex *Exec, st *State, cc *ssa.CallCommon, a []Value) []Value {
			return one(VBool{Eq(ex.bytesOf(st, a[0]), ex.bytesOf(st, a[1]))})
		},
		"bytes.Compare": func(ex *Exec, st *State, cc *ssa.CallCommon, a []Value) []Value {
			x, y := ex.bytesOf(st, a[0]), ex.bytesOf(st, a[1])
			lx, ok1 := Blen(x).U64()
			ly, ok2 := Blen(y).U64()
			if ok1 && ok2 && lx == ly && lx > 0 && lx <= 64 {
				xv, yv := beRead(x, BV(64, 0), int(lx)), beRead(y, BV(64, 0), int(ly))
				r := Ite(BVUlt(xv, yv), BV(64, -1), Ite(Eq(xv, yv), BV(64, 0), BV(64, 1)))
				return one(VBV{r, true})
			}
			r := App("bytesCompare", SBV(64), x, y)
			// one side of constant length L: exact when the other side has that length too (decided by the solver)
			for _, side := range [][2]*Term{{x, y}, {y, x}} {
				if l, ok := Blen(side[0]).U64(); ok && l > 0 && l <= 64 {
					xv, yv := beRead(x, BV(64, 0), int(l)), beRead(y, BV(64, 0), int(l))
					exact := Ite(BVUlt(xv, yv), BV(64, -1), Ite(Eq(xv, yv), BV(64, 0), BV(64, 1)))
					return one(VBV{Ite(Eq(Blen(side[1]), BV(64, int64(l))), exact, r), true})
				}
			}
			return one(VBV{r, true})
		},
		"(encoding/binary.bigEndian).PutUint32": func(ex *Exec, st *State, cc *ssa.CallCommon, a []Value) []Value {
			ex.putBE(st, a[1].(VSlice), a[2].(VBV).T, 4)
			return nil
		},
		"(encoding/binary.bigEndian).PutUint64": func(ex *Exec, st *State, cc *ssa.CallCommon, a []Value) []Value {
			ex.putBE(st, a[1].(VSlice), a[2].(VBV).T, 8)
			return nil
		},
		"(encoding/binary.bigEndian).AppendUint32": func(ex *Exec, st *State, cc *ssa.CallCommon, a []Value) []Value {
			return one(ex.appendBE(st, a[1].(VSlice), a[2].(VBV).T, 4))
		},
		"(encoding/binary.bigEndian).AppendUint64": func(ex *Exec, st *State, cc *ssa.CallCommon, a []Value) []Value {
			return one(ex.appendBE(st, a[1].(VSlice), a[2].(VBV).T, 8))
		},
		"(encoding/binary.bigEndian).AppendUint16": func(ex *Exec, st *State, cc *ssa.CallCommon, a []Value) []Value {
			return one(ex.appendBE(st, a[1].(VSlice), a[2].(VBV).T, 2))
		},
		"(encoding/binary.bigEndian).Uint32": func(ex *Exec, st *State, cc *ssa.CallCommon, a []Value) []Value {
			return one(VBV{ex.getBE(st, a[1].(VSlice), 4), false})
		},
		"(encoding/binary.bigEndian).Uint64": func(ex *Exec, st *State, cc *ssa.CallCommon, a []Value) []Value {
			return one(VBV{ex.getBE(st, a[1].(VSlice), 8), false})
		},
		"math/big.NewInt": func(ex *Exec, st *State, cc *ssa.CallCommon, a []Value) []Value {
			return one(VBig{Nil: TFalse, V: SignExt(bigW, a[0].(VBV).T)})
		},
		"(*math/big.Int).Cmp": func(ex *Exec, st *State, cc *ssa.CallCommon, a []Value) []Value {
			x, y := a[0].(VBig), a[1].(VBig)
			ex.safe(st, "call:big.Int.Cmp(nil)", And(Not(x.Nil), Not(y.Nil)))
			return one(VBV{Ite(BVSlt(x.V, y.V), BV(64, -1), Ite(Eq(x.V, y.V), BV(64, 0), BV(64, 1))), true})
		},
		"(*math/big.Int).Sign": func(ex *Exec, st *State, cc *ssa.CallCommon, a []Value) []Value {
			x := a[0].(VBig)
			ex.safe(st, "call:big.Int.Sign(nil)", Not(x.Nil))
			z := BV(bigW, 0)
			return one(VBV{Ite(BVSlt(x.V, z), BV(64, -1), Ite(Eq(x.V, z), BV(64, 0), BV(64, 1))), true})
		},
		"(*math/big.Int).SetBytes": func(ex *Exec, st *State, cc *ssa.CallCommon, a []Value) []Value {
			recv := a[0].(VBig)
			ex.safe(st, "call:big.Int.SetBytes(nil receiver)", Not(recv.Nil))
			s := a[1].(VSlice)
			if n, ok := s.Len.U64(); ok && n <= 32 {
				if n == 0 {
					return one(VBig{Nil: TFalse, V: BV(bigW, 0)})
				}
				b := ex.snapshot(st, s)
				return one(VBig{Nil: TFalse, V: ZeroExt(bigW, beRead(b, BV(64, 0), int(n)))})
			}
			v := App("bigOfBytes", SBV(bigW), ex.snapshot(st, s))
			return one(VBig{Nil: TFalse, V: v})
		},
		"(*math/big.Int).FillBytes": func(ex *Exec, st *State, cc *ssa.CallCommon, a []Value) []Value {
			recv := a[0].(VBig)
			buf := a[1].(VSlice)
			ex.safe(st, "call:big.Int.FillBytes(nil receiver)", Not(recv.Nil))
			n, ok := buf.Len.U64()
			if !ok || n > 32 || buf.Obj < 0 {
				ex.note(st, "unmodelled-call:FillBytes with symbolic length")
				st.heap[buf.Obj] = Fresh("fill", SArr)
				return one(buf)
			}
			abs := Ite(BVSlt(recv.V, BV(bigW, 0)), BVNeg(recv.V), recv.V)
			lim := BVBig(bigW, new(bigInt).Lsh(bigOne, uint(8*n)))
			ex.safe(st, "call:big.Int.FillBytes(buffer too small)", BVUlt(abs, lim))
			arr := st.heap[buf.Obj]
			for i := uint64(0); i < n; i++ {
				hi := int(8*(n-i) - 1)
				arr = Store(arr, BVAdd(buf.Off, BVU(64, i)), Extract(hi, hi-7, abs))
			}
			st.heap[buf.Obj] = arr
			return one(buf)
		},
		"(cosmossdk.io/math.Int).BigInt": func(ex *Exec, st *State, cc *ssa.CallCommon, a []Value) []Value { return one(a[0]) },
		"(cosmossdk.io/math.Int).IsNil": func(ex *Exec, st *State, cc *ssa.CallCommon, a []Value) []Value {
			return one(VBool{a[0].(VBig).Nil})
		},
		"(cosmossdk.io/math.Int).IsPositive": func(ex *Exec, st *State, cc *ssa.CallCommon, a []Value) []Value {
			x := a[0].(VBig)
			ex.safe(st, "call:math.Int.IsPositive(nil)", Not(x.Nil))
			return one(VBool{BVSgt(x.V, BV(bigW, 0))})
		},
		"(cosmossdk.io/math.Int).GTE": func(ex *Exec, st *State, cc *ssa.CallCommon, a []Value) []Value {
			x, y := a[0].(VBig), a[1].(VBig)
			ex.safe(st, "call:math.Int.GTE(nil)", And(Not(x.Nil), Not(y.Nil)))
			return one(VBool{BVSge(x.V, y.V)})
		},
		"(cosmossdk.io/math.Int).LT": func(ex *Exec, st *State, cc *ssa.CallCommon, a []Value) []Value {
			x, y := a[0].(VBig), a[1].(VBig)
			ex.safe(st, "call:math.Int.LT(nil)", And(Not(x.Nil), Not(y.Nil)))
			return one(VBool{BVSlt(x.V, y.V)})
		},
		"(cosmossdk.io/math.Int).LTE": func(ex *Exec, st *State, cc *ssa.CallCommon, a []Value) []Value {
			x, y := a[0].(VBig), a[1].(VBig)
			ex.safe(st, "call:math.Int.LTE(nil)", And(Not(x.Nil), Not(y.Nil)))
			return one(VBool{BVSle(x.V, y.V)})
		},
		"(cosmossdk.io/math.Int).Equal": func(ex *Exec, st *State, cc *ssa.CallCommon, a []Value) []Value {
			x, y := a[0].(VBig), a[1].(VBig)
			ex.safe(st, "call:math.Int.Equal(nil)", And(Not(x.Nil), Not(y.Nil)))
			return one(VBool{Eq(x.V, y.V)})
		},
		"(cosmossdk.io/math.Int).IsZero": func(ex *Exec, st *State, cc *ssa.CallCommon, a []Value) []Value {
			x := a[0].(VBig)
			ex.safe(st, "call:math.Int.IsZero(nil)", Not(x.Nil))
			return one(VBool{Eq(x.V, BV(bigW, 0))})
		},
		"(cosmossdk.io/math.Int).IsNegative": func(ex *Exec, st *State, cc *ssa.CallCommon, a []Value) []Value {
			x := a[0].(VBig)
			ex.safe(st, "call:math.Int.IsNegative(nil)", Not(x.Nil))
			return one(VBool{BVSlt(x.V, BV(bigW, 0))})
		},
		"(cosmossdk.io/math.Int).GT": func(ex *Exec, st *State, cc *ssa.CallCommon, a []Value) []Value {
			x, y := a[0].(VBig), a[1].(VBig)
			ex.safe(st, "call:math.Int.GT(nil)", And(Not(x.Nil), Not(y.Nil)))
			return one(VBool{BVSgt(x.V, y.V)})
		},
		"cosmossdk.io/math.NewIntFromBigInt": func(ex *Exec, st *State, cc *ssa.CallCommon, a []Value) []Value {
			x := a[0].(VBig)
			// nil in, nil Int out; panics when the bit length exceeds 256
			ex.safe(st, "call:math.NewIntFromBigInt(overflow)", Or(x.Nil, bigInRange(x.V)))
			return one(x)
		},
		"github.com/cosmos/cosmos-sdk/types.NewCoin": func(ex *Exec, st *State, cc *ssa.CallCommon, a []Value) []Value {
			d := strOf(a[0])
			amt := a[1].(VBig)
			ex.safe(st, "call:sdk.NewCoin(invalid denom)", App("validDenom", SBool, d))
			ex.safe(st, "call:sdk.NewCoin(nil amount)", Not(amt.Nil))
			ex.safe(st, "call:sdk.NewCoin(negative amount)", BVSge(amt.V, BV(bigW, 0)))
			t := cc.Signature().Results().At(0).Type()
			return one(VStruct{T: t, F: []Value{VStr{d}, amt}})
		},
		"github.com/cosmos/cosmos-sdk/types.ValidateDenom": func(ex *Exec, st *State, cc *ssa.CallCommon, a []Value) []Value {
			return one(VErr{Not(App("validDenom", SBool, strOf(a[0])))})
		},
		"github.com/cosmos/cosmos-sdk/types.NewCoins": func(ex *Exec, st *State, cc *ssa.CallCommon, a []Value) []Value {
			vs, ok := a[0].(VVals)
			if !ok || len(vs.E) != 1 {
				ex.note(st, "unmodelled-call:NewCoins with %T", a[0])
				return one(VOpaque{"coins"})
			}
			coin := vs.E[0].(VStruct)
			amt := coin.F[1].(VBig)
			// one valid coin: kept when positive, dropped when zero
			return one(VCoins{Coin: coin, Empty: Eq(amt.V, BV(bigW, 0))})
		},
		"invoke:types.BankKeeper.SendCoinsFromAccountToModule": func(ex *Exec, st *State, cc *ssa.CallCommon, a []Value) []Value {
			from := ex.bytesOf(st, a[2])
			mod := strOf(a[3])
			r := Rec{Kind: "BankSend", Fields: map[string]Value{"From": VStr{from}, "Module": VStr{mod}}, Order: []string{"From", "Module", "Denom", "Amount"}}
			var denom, amt *Term
			if cs, ok := a[4].(VCoins); ok {
				denom = cs.Coin.F[0].(VStr).T
				amt = Ite(cs.Empty, BV(bigW, 0), cs.Coin.F[1].(VBig).V)
			} else {
				denom, amt = Fresh("coins.denom", SBytes), Fresh("coins.amt", SBV(bigW))
				st.callTaint = true
			}
			r.Fields["Denom"] = VStr{denom}
			r.Fields["Amount"] = VBV{amt, true}
			e := Var(fmt.Sprintf("depFail!%d", st.callN), SBool)
			st.callN++
			st.calls = append(st.calls, r)
			st.ext = App("bankSendExt", "Ext", st.ext, from, mod, denom, amt)
			return one(VErr{e})
		},
		"invoke:types.FiatTokenfactoryKeeper.Burn": func(ex *Exec, st *State, cc *ssa.CallCommon, a []Value) []Value {
			msg := ex.load(st, a[2], nil).(VStruct)
			from := msg.F[0].(VStr).T
			coin := msg.F[1].(VStruct)
			denom, amt := coin.F[0].(VStr).T, coin.F[1].(VBig)
			e := Var(fmt.Sprintf("depFail!%d", st.callN), SBool)
			st.callN++
			st.calls = append(st.calls, Rec{Kind: "Burn", Fields: map[string]Value{"From": VStr{from}, "Denom": VStr{denom}, "Amount": amt}, Order: []string{"From", "Denom", "Amount"}})
			st.ext = App("burnExt", "Ext", st.ext, from, denom, amt.Nil, amt.V)
			return []Value{VOpaque{"burnresp"}, VErr{e}}
		},
		"invoke:types.FiatTokenfactoryKeeper.Mint": func(ex *Exec, st *State, cc *ssa.CallCommon, a []Value) []Value {
			msg := ex.load(st, a[2], nil).(VStruct)
			from, addr := msg.F[0].(VStr).T, msg.F[1].(VStr).T
			coin := msg.F[2].(VStruct)
			denom, amt := coin.F[0].(VStr).T, coin.F[1].(VBig)
			e := Var(fmt.Sprintf("depFail!%d", st.callN), SBool)
			st.callN++
			st.calls = append(st.calls, Rec{Kind: "Mint", Fields: map[string]Value{"From": VStr{from}, "Address": VStr{addr}, "Denom": VStr{denom}, "Amount": amt}, Order: []string{"From", "Address", "Denom", "Amount"}})
			st.ext = App("mintExt", "Ext", st.ext, from, addr, denom, amt.Nil, amt.V)
			return []Value{VOpaque{"mintresp"}, VErr{e}}
		},
		"invoke:types.FiatTokenfactoryKeeper.GetMintingDenom": func(ex *Exec, st *State, cc *ssa.CallCommon, a []Value) []Value {
			t := cc.Signature().Results().At(0).Type()
			return one(VStruct{T: t, F: []Value{VStr{App("mintingDenom", SBytes, st.ext)}}})
		},
		"github.com/cosmos/cosmos-sdk/types/query.Paginate": func(ex *Exec, st *State, cc *ssa.CallCommon, a []Value) []Value {
			return ex.paginate(st, cc, a)
		},
	}
}

// VCoins is the result of sdk.NewCoins on a single coin.
type VCoins struct {
	Coin  VStruct
	Empty *Term
}

func (ex *Exec) putBE(st *State, b VSlice, v *Term, n int) {
	ex.safe(st, fmt.Sprintf("call:BigEndian.PutUint%d(short buffer)", 8*n), BVUge(b.Len, BV(64, int64(n))))
	if b.Obj < 0 {
		return
	}
	arr := st.heap[b.Obj]
	for i := 0; i < n; i++ {
		hi := 8*(n-i) - 1
		arr = Store(arr, BVAdd(b.Off, BV(64, int64(i))), Extract(hi, hi-7, v))
	}
	st.heap[b.Obj] = arr
}

func (ex *Exec) getBE(st *State, b VSlice, n int) *Term {
	ex.safe(st, fmt.Sprintf("call:BigEndian.Uint%d(short buffer)", 8*n), BVUge(b.Len, BV(64, int64(n))))
	if b.Obj < 0 {
		return BV(8*n, 0)
	}
	arr := st.heap[b.Obj]
	var t *Term
	for i := 0; i < n; i++ {
		by := Select(arr, BVAdd(b.Off, BV(64, int64(i))))
		if t == nil {
			t = by
		} else {
			t = Concat(t, by)
		}
	}
	return t
}

func protoName(t types.Type) string {
	if p, ok := t.(*types.Pointer); ok {
		t = p.Elem()
	}
	if n, ok := t.(*types.Named); ok {
		return n.Obj().Name()
	}
	return ""
}

func (ex *Exec) marshal(st *State, msg Value) Value {
	iface, ok := msg.(VIface)
	if !ok {
		return ex.freshSlice(st, "marshal?")
	}
	name := protoName(iface.DynT)
	fs, ok := protoTypes[name]
	if !ok {
		ex.note(st, "unmodelled-call:MustMarshal(%s)", name)
		return ex.freshSlice(st, "marshal?")
	}
	sv, ok := ex.load(st, iface.Dyn, nil).(VStruct)
	if !ok {
		return ex.freshSlice(st, "marshal?")
	}
	vals := map[string]*Term{}
	ex.leafVals(st, sv.T, "", sv, vals)
	// math.Int.Marshal substitutes a zero big.Int for a nil one: the nil flag does not survive encoding
	for n, nilT := range vals {
		if strings.HasSuffix(n, ".nil") {
			base := strings.TrimSuffix(n, ".nil")
			vals[base+".v"] = Ite(nilT, BV(bigW, 0), vals[base+".v"])
			vals[n] = TFalse
		}
	}
	var args []*Term
	for _, f := range fs {
		t, ok := vals[f.Name]
		if !ok {
			panic("marshal: missing leaf " + f.Name + " of " + name)
		}
		args = append(args, t)
	}
	return ex.sliceOf(st, App("enc_"+name, SBytes, args...), TFalse)
}

func (ex *Exec) unmarshal(st *State, bz VSlice, target Value) {
	iface, ok := target.(VIface)
	if !ok {
		return
	}
	name := protoName(iface.DynT)
	fs, ok := protoTypes[name]
	if !ok {
		ex.note(st, "unmodelled-call:Unmarshal(%s)", name)
		return
	}
	p, ok := iface.Dyn.(VPtr)
	if !ok {
		return
	}
	raw := ex.snapshot(st, bz)
	et := iface.DynT.(*types.Pointer).Elem()
	sorts := map[string]string{}
	for _, f := range fs {
		sorts[f.Name] = f.Sort
	}
	v := ex.buildFromCols(st, et, "", func(path string) *Term {
		if strings.HasSuffix(path, ".isnil") {
			base := strings.TrimSuffix(path, ".isnil")
			return Eq(Blen(dec(name, base, SBytes, raw)), BV(64, 0))
		}
		return dec(name, path, sorts[path], raw)
	})
	ex.store(st, p, v, nil)
}

func (ex *Exec) recordEvent(st *State, msg Value) {
	iface, ok := msg.(VIface)
	if !ok {
		st.evTaint = true
		return
	}
	name := protoName(iface.DynT)
	sv, ok := ex.load(st, iface.Dyn, nil).(VStruct)
	if !ok {
		st.evTaint = true
		return
	}
	r := Rec{Kind: name, Fields: map[string]Value{}}
	s := sv.T.Underlying().(*types.Struct)
	for i := 0; i < s.NumFields(); i++ {
		n := s.Field(i).Name()
		r.Order = append(r.Order, n)
		switch f := sv.F[i].(type) {
		case VSlice:
			r.Fields[n] = CBytes{T: ex.snapshot(st, f), Nil: f.Nil}
		default:
			r.Fields[n] = f
		}
	}
	st.events = append(st.events, r)
}

// ---- store model helpers

var collectionPrefixes = []string{"Attester/value/"}

func (ex *Exec) bumpCount(st *State, key, had *Term, set bool) {
	for _, p := range collectionPrefixes {
		in := hasConstPrefix(key, p)
		if in == TFalse {
			continue
		}
		c := st.cnt[p]
		if set {
			st.cnt[p] = Ite(And(in, Not(had)), BVAdd(c, BV(64, 1)), c)
		} else {
			st.cnt[p] = Ite(And(in, had), BVSub(c, BV(64, 1)), c)
		}
	}
}

// hasConstPrefix: key starts with the constant string p (byte-wise).
func hasConstPrefix(key *Term, p string) *Term {
	conj := []*Term{BVUge(Blen(key), BV(64, int64(len(p))))}
	for i := 0; i < len(p); i++ {
		conj = append(conj, Eq(Select(Barr(key), BV(64, int64(i))), BV(8, int64(p[i]))))
	}
	return And(conj...)
}

func (ex *Exec) rangeCount(st *State, prefix *Term) *Term {
	for _, p := range collectionPrefixes {
		if prefix == BytesConst(p) {
			return st.cnt[p]
		}
	}
	return App("rangeCount", SBV(64), st.rawHas, prefix)
}

func (ex *Exec) paginate(st *State, cc *ssa.CallCommon, a []Value) []Value {
	// Assumed: query.Paginate calls the callback on (key, value) pairs of the given prefix store and
	// returns its first error. Model: zero or one symbolic invocation, result havocked.
	ex.note(st, "assumed-contract:query.Paginate (callback invoked on entries of the store it was given)")
	a0 := a[0]
	if iv, ok := a0.(VIface); ok {
		a0 = iv.Dyn
	}
	if sv, ok := a0.(VStore); ok {
		st.pages = append(st.pages, sv.Prefix)
	} else {
		st.pages = append(st.pages, Fresh("unknownStore", SBytes))
	}
	// whatever the callback captured by reference may have been assigned
	if cl, ok := a[2].(VClosure); ok {
		for i, b := range cl.Bind {
			if p, ok := b.(VPtr); ok && p.Cell > 0 && i < len(cl.Fn.FreeVars) {
				if pt, ok := cl.Fn.FreeVars[i].Type().(*types.Pointer); ok {
					st.cells[p.Cell] = ex.fresh(st, pt.Elem(), "paginate."+cl.Fn.FreeVars[i].Name(), 0)
				}
			}
		}
	}
	sig := cc.Signature()
	var res []Value
	for i := 0; i < sig.Results().Len(); i++ {
		res = append(res, ex.havoc(st, sig.Results().At(i).Type(), "paginate"))
	}
	return res
}

// appendBE: binary.BigEndian.AppendUintN(b, v) = append(b, the n big-endian bytes of v...), by definition.
func (ex *Exec) appendBE(st *State, base VSlice, v *Term, n int) Value {
	arr := ZeroArr
	for i := 0; i < n; i++ {
		hi := 8*(n-i) - 1
		arr = storeNZ(arr, uint64(i), Extract(hi, hi-7, v))
	}
	r := Cat(ex.snapshot(st, base), MkBytes(arr, BV(64, int64(n))))
	out := ex.sliceOf(st, r, TFalse)
	cp := Fresh("cap", SBV(64))
	st.assume(And(BVUge(cp, out.Len), BVUle(cp, BVU(64, 1<<48))))
	st.assume(BVUle(out.Len, BVU(64, 1<<47)))
	ex.objs[out.Obj].Size = cp
	out.Cap = cp
	return out
}
