package main

// Evaluation of contract expressions to SMT terms over a (pre, post) pair of states.

import (
	"fmt"
	"go/ast"
	"go/types"
	"math/big"
	"strings"

	"golang.org/x/tools/go/ssa"
)

// contract-only value kinds
type CBytes struct {
	T   *Term
	Nil *Term
}
type CComp struct {
	Prefix string
	Keys   []*Term
	Old    bool // taken under old(...): components are read from the entry state
}
type CRecs struct {
	Recs  []Rec
	Taint bool
}
type CList struct{ E []Value }
type CLit struct {
	Name   string
	Fields map[string]Value
	Order  []string
}
type CNil struct{}
type CNum struct{ N *big.Int }
type CState struct{}

type EvalCtx struct {
	ex         *Exec
	pre        *State
	post       *State
	old        bool
	vars       map[string]Value
	bound      map[string]Value
	evBase     int
	clBase     int
	fn         *ssa.Function
	loopHeader *ssa.BasicBlock
	// side conditions produced while evaluating (e.g. skolem canonicity), conjoined to assumptions
	side []*Term
}

func (c *EvalCtx) state() *State {
	if c.old {
		return c.pre
	}
	return c.post
}

type evalErr struct {
	msg   string
	undef bool // the expression has no value here (log entry that does not exist): not a binding error in a guarded position
}

func (e evalErr) Error() string { return e.msg }

func fail(format string, a ...interface{}) {
	panic(evalErr{msg: fmt.Sprintf(format, a...)})
}

func failUndef(format string, a ...interface{}) {
	panic(evalErr{msg: fmt.Sprintf(format, a...), undef: true})
}

// evalGuarded evaluates the consequent of an implication; ok is false when it has no value on this path.
func (c *EvalCtx) evalGuarded(e *Expr) (t *Term, ok bool) {
	defer func() {
		if r := recover(); r != nil {
			if ee, isE := r.(evalErr); isE && ee.undef {
				t, ok = nil, false
				return
			}
			panic(r)
		}
	}()
	return c.asBool(c.eval(e)), true
}

// EvalBool evaluates a boolean contract expression.
func (c *EvalCtx) EvalBool(e *Expr) (t *Term, err error) {
	defer func() {
		if r := recover(); r != nil {
			if ee, ok := r.(evalErr); ok {
				err = ee
				return
			}
			panic(r)
		}
	}()
	v := c.eval(e)
	return c.asBool(v), nil
}

func (c *EvalCtx) asBool(v Value) *Term {
	switch x := v.(type) {
	case VBool:
		return x.T
	}
	fail("boolean expected, got %s", describe(v))
	return nil
}

func (c *EvalCtx) eval(e *Expr) Value {
	switch e.Op {
	case "num":
		return CNum{e.Num}
	case "bool":
		return VBool{Bool(e.Name == "true")}
	case "str":
		return VStr{BytesConst(e.Str)}
	case "nil":
		return CNil{}
	case "ident":
		return c.ident(e.Name)
	case "old":
		saved := c.old
		c.old = true
		v := c.eval(e.Args[0])
		c.old = saved
		return v
	case "field":
		return c.field(c.eval(e.Args[0]), e.Name)
	case "index":
		return c.index(c.eval(e.Args[0]), c.eval(e.Args[1]))
	case "slice":
		base := c.norm(c.eval(e.Args[0]))
		bt := bytesTerm(base)
		if bt == nil {
			fail("slice of non-bytes %s", describe(base))
		}
		lo := BV(64, 0)
		hi := Blen(bt)
		if e.Args[1] != nil {
			lo = c.asBV(c.eval(e.Args[1]), 64)
		}
		if e.Args[2] != nil {
			hi = c.asBV(c.eval(e.Args[2]), 64)
		}
		return VStr{snapArr(Barr(bt), lo, BVSub(hi, lo))}
	case "unary":
		v := c.eval(e.Args[0])
		if e.Name == "!" {
			return VBool{Not(c.asBool(v))}
		}
		switch x := v.(type) {
		case VBV:
			return VBV{BVNeg(x.T), true}
		case CNum:
			return CNum{new(big.Int).Neg(x.N)}
		}
		fail("bad operand for unary -")
	case "binary":
		return c.binary(e)
	case "ite":
		cond := c.asBool(c.eval(e.Args[0]))
		a, b := c.norm(c.eval(e.Args[1])), c.norm(c.eval(e.Args[2]))
		return c.iteVal(cond, a, b)
	case "list":
		l := CList{}
		for _, a := range e.Args {
			l.E = append(l.E, c.eval(a))
		}
		return l
	case "struct":
		lit := CLit{Name: e.Name, Fields: map[string]Value{}}
		for _, f := range e.Fields {
			lit.Fields[f.Name] = c.eval(f.E)
			lit.Order = append(lit.Order, f.Name)
		}
		return lit
	case "call":
		return c.call(e)
	case "forall", "exists":
		sort, mk := c.boundSort(e.BType)
		bv := Var("q$"+e.BVar, sort)
		saved, had := c.bound[e.BVar]
		c.bound[e.BVar] = mk(bv)
		body := c.asBool(c.eval(e.Args[0]))
		if had {
			c.bound[e.BVar] = saved
		} else {
			delete(c.bound, e.BVar)
		}
		// a hint(q) on the bound variable is the clause's trigger
		var pats [][]*Term
		if w := bvWidth(sort); w > 0 {
			tr := App(fmt.Sprintf("trig%d", w), SBool, bv)
			if occursTerm(tr, body) {
				pats = append(pats, []*Term{tr})
			}
		}
		if e.Op == "forall" {
			return VBool{Forall([]*Term{bv}, body, pats...)}
		}
		return VBool{Exists([]*Term{bv}, body, pats...)}
	}
	fail("cannot evaluate %s", e.Op)
	return nil
}

func (c *EvalCtx) boundSort(t string) (string, func(*Term) Value) {
	switch t {
	case "int":
		return SBV(64), func(x *Term) Value { return VBV{x, true} }
	case "uint64":
		return SBV(64), func(x *Term) Value { return VBV{x, false} }
	case "uint32":
		return SBV(32), func(x *Term) Value { return VBV{x, false} }
	case "bytes", "string":
		return SBytes, func(x *Term) Value { return VStr{x} }
	case "bool":
		return SBool, func(x *Term) Value { return VBool{x} }
	case "amount":
		return SBV(bigW), func(x *Term) Value { return VBV{x, true} }
	}
	fail("unknown bound type %s", t)
	return "", nil
}

func (c *EvalCtx) iteVal(cond *Term, a, b Value) Value {
	switch x := a.(type) {
	case VBool:
		return VBool{Ite(cond, x.T, c.asBool(b))}
	case VBV:
		bt := c.asBV(b, x.T.Width())
		return VBV{Ite(cond, x.T, bt), x.Signed}
	case CNum:
		if y, ok := b.(VBV); ok {
			return VBV{Ite(cond, c.asBV(a, y.T.Width()), y.T), y.Signed}
		}
	case VStr:
		return VStr{Ite(cond, x.T, bytesTerm(b))}
	case CBytes:
		return VStr{Ite(cond, x.T, bytesTerm(b))}
	case CList:
		// conditional list: both sides must be concrete lists; cond must be decided later: keep as tagged list
		if y, ok := b.(CList); ok {
			return CCondList{cond, x, y}
		}
	}
	fail("unsupported conditional on %s", describe(a))
	return nil
}

type CCondList struct {
	Cond *Term
	A, B CList
}

func bytesTerm(v Value) *Term {
	switch x := v.(type) {
	case VStr:
		return x.T
	case CBytes:
		return x.T
	}
	return nil
}

// norm converts executor values into contract values in the current (old/post) state.
func (c *EvalCtx) norm(v Value) Value {
	switch x := v.(type) {
	case VSlice:
		st := c.state()
		if x.Obj >= 0 {
			if _, ok := st.heap[x.Obj]; !ok {
				// object did not exist in that state (allocated later): use post
				st = c.post
			}
		}
		return CBytes{T: c.ex.snapshot(st, x), Nil: x.Nil}
	case VPtr:
		if x.Cell == -1 && x.NilT == nil {
			return CNil{}
		}
		// a pointer to a list (captured slice variable) reads as the list
		if x.Cell > 0 && len(x.Path) == 0 {
			st := c.state()
			if cv, ok := st.cells[x.Cell]; ok {
				if l, ok := cv.(VList); ok {
					return l
				}
			}
		}
		return x
	case CComp:
		return c.resolve(x)
	}
	return v
}

func (c *EvalCtx) resolve(cc CComp) Value {
	comp := compByName[cc.Prefix]
	if comp == nil || len(cc.Keys) != len(comp.KeySorts) {
		return cc
	}
	st := c.state()
	if cc.Old {
		st = c.pre
	}
	t := readComp(c.ex.mode, st, cc.Prefix, cc.Keys)
	return wrapSort(t)
}

func wrapSort(t *Term) Value {
	switch {
	case t.Sort == SBool:
		return VBool{t}
	case t.Sort == SBytes:
		return VStr{t}
	case bvWidth(t.Sort) > 0:
		return VBV{t, false}
	}
	fail("cannot wrap sort %s", t.Sort)
	return nil
}

func (c *EvalCtx) ident(name string) Value {
	if v, ok := c.bound[name]; ok {
		return v
	}
	if v, ok := c.vars[name]; ok {
		return c.norm(v)
	}
	switch name {
	case "st":
		return CComp{Old: c.old}
	case "events":
		st := c.post
		return CRecs{Recs: st.events[c.evBase:], Taint: st.evTaint}
	case "calls":
		st := c.post
		return CRecs{Recs: st.calls[c.clBase:], Taint: st.callTaint}
	case "acctPrefix":
		return VStr{Var("acctPrefix", SBytes)}
	case "moduleAddr":
		return VStr{moduleAddrTerm()}
	case "ext":
		return VOpaque{"ext"}
	case "loopidx":
		// number of elements the innermost loop has finished (header) / index of the element at hand (body):
		// rangeindex+1 for a range loop, the counter compared in the guard for an index loop
		if v := c.loopIdx(); v != nil {
			return v
		}
		fail("loopidx: no enclosing loop with an index")
	}
	// local variable of the function (loop invariants): phi or alloc with that comment
	if c.fn != nil {
		if v, ok := c.local(name); ok {
			return c.norm(v)
		}
	}
	fail("unknown identifier %q", name)
	return nil
}

func moduleAddrTerm() *Term { return App("moduleAddr", SBytes, BytesConst("cctp")) }

func (c *EvalCtx) loopIdx() Value {
	h := c.loopHeader
	if h == nil || c.fn == nil {
		return nil
	}
	var fr *Frame
	for _, f := range c.state().frames {
		if f.Fn == c.fn {
			fr = f
		}
	}
	if fr == nil {
		return nil
	}
	for _, in := range h.Instrs {
		if x, ok := in.(*ssa.Phi); ok && x.Comment == "rangeindex" {
			if v, ok := fr.Regs[x].(VBV); ok {
				return VBV{BVAdd(v.T, BV(v.T.Width(), 1)), v.Signed}
			}
		}
	}
	if iff, ok := h.Instrs[len(h.Instrs)-1].(*ssa.If); ok {
		if bin, ok := iff.Cond.(*ssa.BinOp); ok {
			for _, side := range []ssa.Value{bin.X, bin.Y} {
				if phi, ok := side.(*ssa.Phi); ok && phi.Block() == h {
					if v, ok := fr.Regs[phi].(VBV); ok {
						return v
					}
				}
			}
		}
	}
	return nil
}

func (c *EvalCtx) local(name string) (Value, bool) {
	st := c.state()
	var fr *Frame
	for _, f := range st.frames {
		if f.Fn == c.fn {
			fr = f
		}
	}
	if fr == nil {
		return nil, false
	}
	// phis of the loop header whose invariant is being evaluated come first (several loops may reuse a name)
	if c.loopHeader != nil {
		for _, in := range c.loopHeader.Instrs {
			if x, ok := in.(*ssa.Phi); ok && x.Comment == name {
				if v, ok := fr.Regs[x]; ok {
					return v, true
				}
			}
		}
	}
	for _, b := range c.fn.Blocks {
		for _, in := range b.Instrs {
			switch x := in.(type) {
			case *ssa.Phi:
				if x.Comment == name {
					if v, ok := fr.Regs[x]; ok {
						return v, true
					}
				}
			case *ssa.Alloc:
				if x.Comment == name {
					if v, ok := fr.Regs[x]; ok {
						return c.ex.specLoad(st, v), true
					}
				}
			}
		}
	}
	// a source variable bound to an SSA value (debug references)
	var found Value
	for _, b := range c.fn.Blocks {
		for _, in := range b.Instrs {
			if d, ok := in.(*ssa.DebugRef); ok && !d.IsAddr {
				if id, ok := d.Expr.(*ast.Ident); ok && id.Name == name {
					if v, ok := fr.Regs[d.X]; ok {
						found = v
					}
				}
			}
		}
	}
	if found != nil {
		return found, true
	}
	// the source name is gone (renamed local): fall back on the shape recorded in the contract
	if ct := c.ex.contracts[fnName(c.fn)]; ct != nil {
		if d, ok := ct.Locals[name]; ok {
			// exact type first; a map local whose value type was changed is still "the N-th map made"
			for _, loose := range []bool{false, true} {
				n := 0
				for _, b := range c.fn.Blocks {
					for _, in := range b.Instrs {
						var t types.Type
						switch x := in.(type) {
						case *ssa.Phi:
							t = x.Type()
						case *ssa.Alloc:
							t = x.Type().(*types.Pointer).Elem()
						case *ssa.MakeMap:
							t = x.Type()
						default:
							continue
						}
						if strings.HasPrefix(d.Type, "map[") {
							// a map local is "the N-th map made" whatever its value type has become
							if _, isMake := in.(*ssa.MakeMap); !isMake || loose {
								continue
							}
						} else if loose || typeShort(t) != d.Type {
							continue
						}
						if n == d.N {
							if v, ok := fr.Regs[in.(ssa.Value)]; ok {
								if _, isAlloc := in.(*ssa.Alloc); isAlloc {
									return c.ex.specLoad(st, v), true
								}
								return v, true
							}
							return nil, false
						}
						n++
					}
				}
			}
		}
	}
	return nil, false
}

// localRaw finds a local by name without normalising it (allocs are dereferenced once).
func (c *EvalCtx) localRaw(name string) (Value, bool) {
	st := c.post
	var fr *Frame
	for _, f := range st.frames {
		if f.Fn == c.fn {
			fr = f
		}
	}
	if fr == nil {
		return nil, false
	}
	for _, b := range c.fn.Blocks {
		for _, in := range b.Instrs {
			if x, ok := in.(*ssa.Alloc); ok && x.Comment == name {
				if v, ok := fr.Regs[x]; ok {
					return c.ex.specLoad(st, v), true
				}
			}
		}
	}
	return nil, false
}

func (c *EvalCtx) field(base Value, name string) Value {
	base = c.norm(base)
	switch x := base.(type) {
	case CComp:
		p := name
		if x.Prefix != "" {
			p = x.Prefix + "." + name
		}
		return c.resolveMaybe(CComp{Prefix: p, Keys: x.Keys, Old: x.Old})
	case VPtr:
		v := c.ex.specLoad(c.state(), x)
		return c.field(v, name)
	case VStruct:
		s := x.T.Underlying().(*types.Struct)
		for i := 0; i < s.NumFields(); i++ {
			if s.Field(i).Name() == name {
				return c.norm(x.F[i])
			}
		}
		fail("no field %s in %s", name, typeShort(x.T))
	case CLit:
		if v, ok := x.Fields[name]; ok {
			return c.norm(v)
		}
		fail("no field %s in %s", name, x.Name)
	case VBig:
		switch name {
		case "isnil":
			return VBool{x.Nil}
		case "v":
			return VBV{x.V, true}
		}
	case CBytes:
		if name == "isnil" {
			return VBool{x.Nil}
		}
	case CNil:
		fail("field %s of nil", name)
	}
	fail("cannot take field %s of %s", name, describe(base))
	return nil
}

func (c *EvalCtx) resolveMaybe(cc CComp) Value {
	// valid if some component has this prefix
	if len(compsWithPrefix(cc.Prefix)) == 0 {
		fail("unknown state component st.%s", cc.Prefix)
	}
	return c.resolve(cc)
}

func (c *EvalCtx) index(base, idx Value) Value {
	base = c.norm(base)
	idx = c.norm(idx)
	switch x := base.(type) {
	case CComp:
		// key sort: find a component with this prefix
		cs := compsWithPrefix(x.Prefix)
		if len(cs) == 0 || len(cs[0].KeySorts) <= len(x.Keys) {
			fail("too many keys for st.%s", x.Prefix)
		}
		ks := cs[0].KeySorts[len(x.Keys)]
		var kt *Term
		if ks == SBytes {
			kt = bytesTerm(idx)
			if kt == nil {
				fail("bytes key expected for st.%s", x.Prefix)
			}
		} else {
			kt = c.asBV(idx, bvWidth(ks))
		}
		return c.resolve(CComp{Prefix: x.Prefix, Keys: append(append([]*Term(nil), x.Keys...), kt), Old: x.Old})
	case VStr, CBytes:
		i := c.asBV(idx, 64)
		return VBV{Select(Barr(bytesTerm(x)), i), false}
	case CRecs:
		n, ok := idx.(CNum)
		if !ok || !n.N.IsInt64() || int(n.N.Int64()) >= len(x.Recs) {
			failUndef("record index out of range")
		}
		r := x.Recs[n.N.Int64()]
		return CLit{Name: r.Kind, Fields: r.Fields, Order: r.Order}
	case VList:
		i := c.asBV(idx, 64)
		return c.ex.listElem(c.state(), &x, i)
	}
	fail("cannot index %s", describe(base))
	return nil
}

func (c *EvalCtx) asBV(v Value, w int) *Term {
	v = c.norm(v)
	switch x := v.(type) {
	case VBV:
		if x.T.Width() == w {
			return x.T
		}
		if x.T.Width() < w {
			if x.Signed {
				return SignExt(w, x.T)
			}
			return ZeroExt(w, x.T)
		}
		fail("bit-vector of width %d where %d expected", x.T.Width(), w)
	case CNum:
		return BVBig(w, x.N)
	case VBig:
		if w == bigW {
			return x.V
		}
	}
	fail("integer expected, got %s", describe(v))
	return nil
}

func (c *EvalCtx) binary(e *Expr) Value {
	op := e.Name
	switch op {
	case "&&":
		l := c.asBool(c.eval(e.Args[0]))
		if l == TFalse {
			return VBool{TFalse} // short-circuit: the right operand may not be well-defined
		}
		return VBool{And(l, c.asBool(c.eval(e.Args[1])))}
	case "||":
		l := c.asBool(c.eval(e.Args[0]))
		if l == TTrue {
			return VBool{TTrue}
		}
		return VBool{Or(l, c.asBool(c.eval(e.Args[1])))}
	case "==>":
		a := c.asBool(c.eval(e.Args[0]))
		if a == TFalse {
			return VBool{TTrue}
		}
		// a consequent without a value (it names a log entry this path does not have) can only be excused by a
		// false antecedent
		b, ok := c.evalGuarded(e.Args[1])
		if !ok {
			return VBool{Not(a)}
		}
		return VBool{Implies(a, b)}
	case "<==>":
		return VBool{Iff(c.asBool(c.eval(e.Args[0])), c.asBool(c.eval(e.Args[1])))}
	}
	a, b := c.norm(c.eval(e.Args[0])), c.norm(c.eval(e.Args[1]))
	switch op {
	case "==":
		return VBool{c.eq(a, b)}
	case "!=":
		return VBool{Not(c.eq(a, b))}
	}
	// arithmetic / ordering
	w, signed := 0, false
	for _, v := range []Value{a, b} {
		switch x := v.(type) {
		case VBV:
			if x.T.Width() > w {
				w = x.T.Width()
			}
			if x.Signed {
				signed = true
			}
		case VBig:
			w, signed = bigW, true
		}
	}
	if w == 0 {
		na, ok1 := a.(CNum)
		nb, ok2 := b.(CNum)
		if ok1 && ok2 {
			switch op {
			case "+":
				return CNum{new(big.Int).Add(na.N, nb.N)}
			case "-":
				return CNum{new(big.Int).Sub(na.N, nb.N)}
			case "*":
				return CNum{new(big.Int).Mul(na.N, nb.N)}
			}
		}
		fail("cannot type arithmetic %s", e)
	}
	at, bt := c.asBV(a, w), c.asBV(b, w)
	switch op {
	case "+":
		return VBV{BVAdd(at, bt), signed}
	case "-":
		return VBV{BVSub(at, bt), signed}
	case "*":
		return VBV{BVMul(at, bt), signed}
	case "/":
		if signed {
			return VBV{BVSdiv(at, bt), signed}
		}
		return VBV{BVUdiv(at, bt), signed}
	case "%":
		if signed {
			return VBV{BVSrem(at, bt), signed}
		}
		return VBV{BVUrem(at, bt), signed}
	case "<":
		if signed {
			return VBool{BVSlt(at, bt)}
		}
		return VBool{BVUlt(at, bt)}
	case "<=":
		if signed {
			return VBool{BVSle(at, bt)}
		}
		return VBool{BVUle(at, bt)}
	case ">":
		if signed {
			return VBool{BVSgt(at, bt)}
		}
		return VBool{BVUgt(at, bt)}
	case ">=":
		if signed {
			return VBool{BVSge(at, bt)}
		}
		return VBool{BVUge(at, bt)}
	}
	fail("unknown operator %s", op)
	return nil
}

func (c *EvalCtx) eq(a, b Value) *Term {
	a, b = c.norm(a), c.norm(b)
	if _, ok := a.(CNil); ok {
		a, b = b, a
	}
	if _, ok := b.(CNil); ok {
		switch x := a.(type) {
		case VErr:
			return Not(x.Is)
		case CBytes:
			return x.Nil
		case VPtr:
			if x.NilT != nil {
				return x.NilT
			}
			return Bool(x.Cell == -1)
		case CNil:
			return TTrue
		case VBig:
			return x.Nil
		}
		fail("cannot compare %s with nil", describe(a))
	}
	switch x := a.(type) {
	case VBool:
		return Eq(x.T, c.asBool(b))
	case VBV:
		w := x.T.Width()
		if y, ok := b.(VBV); ok && y.T.Width() > w {
			w = y.T.Width()
		}
		if _, ok := b.(VBig); ok {
			w = bigW
		}
		return Eq(c.asBV(a, w), c.asBV(b, w))
	case CNum:
		switch y := b.(type) {
		case VBV:
			return Eq(c.asBV(a, y.T.Width()), y.T)
		case VBig:
			return And(Not(y.Nil), Eq(BVBig(bigW, x.N), y.V))
		case CNum:
			return Bool(x.N.Cmp(y.N) == 0)
		}
	case VStr, CBytes:
		bt := bytesTerm(b)
		if bt == nil {
			fail("cannot compare bytes with %s", describe(b))
		}
		return Eq(bytesTerm(a), bt)
	case VBig:
		switch y := b.(type) {
		case VBig:
			return And(Eq(x.Nil, y.Nil), Or(x.Nil, Eq(x.V, y.V)))
		case CNum:
			return And(Not(x.Nil), Eq(x.V, BVBig(bigW, y.N)))
		case VBV:
			return And(Not(x.Nil), Eq(x.V, c.asBV(y, bigW)))
		}
	case VErr:
		if y, ok := b.(VErr); ok {
			return Eq(x.Is, y.Is)
		}
	case CRecs:
		return c.recsEq(x, b)
	case CList, CCondList:
		if y, ok := b.(CRecs); ok {
			return c.recsEq(y, a)
		}
	case CLit:
		if y, ok := b.(CLit); ok {
			return c.litEq(x, y)
		}
		if y, ok := b.(VStruct); ok {
			return c.structLitEq(y, x)
		}
	case VStruct:
		switch y := b.(type) {
		case CLit:
			return c.structLitEq(x, y)
		case VStruct:
			s := x.T.Underlying().(*types.Struct)
			var conj []*Term
			for i := 0; i < s.NumFields(); i++ {
				if _, ok := x.F[i].(VOpaque); ok {
					continue
				}
				conj = append(conj, c.eq(x.F[i], y.F[i]))
			}
			return And(conj...)
		}
	case VPtr:
		// pointer to struct: compare pointee
		return c.eq(c.ex.specLoad(c.state(), x), b)
	case VList:
		if y, ok := b.(VList); ok {
			conj := []*Term{Eq(x.Len, y.Len)}
			for p, col := range x.Cols {
				if oc, ok := y.Cols[p]; ok {
					conj = append(conj, Eq(col, oc))
				}
			}
			return And(conj...)
		}
	}
	fail("cannot compare %s with %s", describe(a), describe(b))
	return nil
}

func (c *EvalCtx) structLitEq(s VStruct, l CLit) *Term {
	st := s.T.Underlying().(*types.Struct)
	var conj []*Term
	seen := map[string]bool{}
	for i := 0; i < st.NumFields(); i++ {
		n := st.Field(i).Name()
		lv, ok := l.Fields[n]
		if !ok {
			if strings.HasPrefix(n, "XXX_") {
				continue
			}
			fail("struct literal %s misses field %s", l.Name, n)
		}
		seen[n] = true
		conj = append(conj, c.eq(s.F[i], lv))
	}
	for n := range l.Fields {
		if !seen[n] {
			fail("struct literal %s has unknown field %s", l.Name, n)
		}
	}
	return And(conj...)
}

func (c *EvalCtx) litEq(a, b CLit) *Term {
	if a.Name != b.Name {
		return TFalse
	}
	var conj []*Term
	for n, av := range a.Fields {
		if strings.HasPrefix(n, "$") {
			continue
		}
		bv, ok := b.Fields[n]
		if !ok {
			fail("record %s: field %s missing on one side", a.Name, n)
		}
		conj = append(conj, c.eq(av, bv))
	}
	for n := range b.Fields {
		if strings.HasPrefix(n, "$") {
			continue
		}
		if _, ok := a.Fields[n]; !ok {
			fail("record %s: field %s missing on one side", a.Name, n)
		}
	}
	return And(conj...)
}

func (c *EvalCtx) recsEq(r CRecs, other Value) *Term {
	if r.Taint {
		return TFalse
	}
	switch l := other.(type) {
	case CList:
		if len(l.E) != len(r.Recs) {
			return TFalse
		}
		var conj []*Term
		for i, e := range l.E {
			lit, ok := c.norm(e).(CLit)
			if !ok {
				fail("record literal expected in list")
			}
			rec := r.Recs[i]
			conj = append(conj, c.litEq(CLit{Name: rec.Kind, Fields: rec.Fields}, lit))
		}
		return And(conj...)
	case CCondList:
		return Ite(l.Cond, c.recsEq(r, l.A), c.recsEq(r, l.B))
	case CRecs:
		if l.Taint || len(l.Recs) != len(r.Recs) {
			return TFalse
		}
		var conj []*Term
		for i := range l.Recs {
			conj = append(conj, c.litEq(CLit{Name: l.Recs[i].Kind, Fields: l.Recs[i].Fields}, CLit{Name: r.Recs[i].Kind, Fields: r.Recs[i].Fields}))
		}
		return And(conj...)
	}
	fail("cannot compare a log with %s", describe(other))
	return nil
}

// ---- spec functions

func (c *EvalCtx) bytesArg(e *Expr) *Term {
	v := c.norm(c.eval(e))
	t := bytesTerm(v)
	if t == nil {
		fail("bytes argument expected, got %s", describe(v))
	}
	return t
}

func beRead(b *Term, off *Term, n int) *Term {
	var t *Term
	for i := 0; i < n; i++ {
		by := Select(Barr(b), BVAdd(off, BV(64, int64(i))))
		if t == nil {
			t = by
		} else {
			t = Concat(t, by)
		}
	}
	return t
}

func zerosBytes(n int) *Term { return MkBytes(ZeroArr, BV(64, int64(n))) }

var specFuns = map[string]*SpecFun{}

// fixedLenApps: result length of opaque spec functions declared as bytes[N]
var fixedLenApps = map[string]int{}

func retSort(rt string) (string, int) {
	if strings.HasPrefix(rt, "bytes[") {
		var n int
		fmt.Sscanf(rt, "bytes[%d]", &n)
		return SBytes, n
	}
	switch rt {
	case "bytes", "string":
		return SBytes, 0
	case "bool":
		return SBool, 0
	case "uint32":
		return SBV(32), 0
	case "uint64", "int":
		return SBV(64), 0
	case "amount":
		return SBV(bigW), 0
	}
	fail("unknown spec type %s", rt)
	return "", 0
}

func (c *EvalCtx) specArgs(sf *SpecFun, args []*Expr) ([]*Term, []Value) {
	if len(args) != len(sf.Params) {
		fail("%s takes %d arguments", sf.Name, len(sf.Params))
	}
	var ts []*Term
	var vs []Value
	for i, a := range args {
		sort, _ := retSort(sf.Params[i][1])
		var t *Term
		if sort == SBytes {
			t = c.bytesArg(a)
			vs = append(vs, VStr{t})
		} else if sort == SBool {
			t = c.asBool(c.eval(a))
			vs = append(vs, VBool{t})
		} else {
			t = c.asBV(c.eval(a), bvWidth(sort))
			vs = append(vs, VBV{t, sf.Params[i][1] == "int" || sf.Params[i][1] == "amount"})
		}
		ts = append(ts, t)
	}
	return ts, vs
}

func (c *EvalCtx) specApp(sf *SpecFun, ts []*Term) Value {
	sort, n := retSort(sf.Ret)
	if n > 0 {
		fixedLenApps[sf.Name] = n
	}
	t := App(sf.Name, sort, ts...)
	return wrapSort(t)
}

func (c *EvalCtx) call(e *Expr) Value {
	if sf, ok := specFuns[e.Name]; ok {
		ts, _ := c.specArgs(sf, e.Args)
		return c.specApp(sf, ts)
	}
	if e.Name == "revealAll" {
		// revealAll(f): the defining equation of the one-parameter opaque function f for every argument
		if len(e.Args) != 1 || e.Args[0].Op != "ident" || specFuns[e.Args[0].Name] == nil || len(specFuns[e.Args[0].Name].Params) != 1 {
			fail("revealAll needs the name of a one-parameter specfun")
		}
		sf := specFuns[e.Args[0].Name]
		sort, mk := c.boundSort(sf.Params[0][1])
		bv := Var("q$ra_"+sf.Name, sort)
		app := c.specApp(sf, []*Term{bv})
		saved, had := c.bound[sf.Params[0][0]]
		c.bound[sf.Params[0][0]] = mk(bv)
		body := c.norm(c.eval(sf.Body))
		if had {
			c.bound[sf.Params[0][0]] = saved
		} else {
			delete(c.bound, sf.Params[0][0])
		}
		eqn := c.eq(app, body)
		pats := [][]*Term{{app.(VStr).T}}
		// also trigger on the list element the body reads, so that uses of the unfolded form find the definition
		var sels []*Term
		seen := map[*Term]bool{}
		var find func(t *Term)
		find = func(t *Term) {
			if seen[t] {
				return
			}
			seen[t] = true
			if t.Op == "select" && t.Args[1] == bv {
				sels = append(sels, t)
			}
			for _, a := range t.Args {
				find(a)
			}
		}
		find(eqn)
		if len(sels) > 0 {
			pats = append(pats, []*Term{sels[0]})
		}
		c.side = append(c.side, Forall([]*Term{bv}, eqn, pats...))
		return VBool{TTrue}
	}
	if e.Name == "reveal" {
		// reveal(f(args)): the defining equation of the opaque spec function f for these arguments
		if len(e.Args) != 1 || e.Args[0].Op != "call" || specFuns[e.Args[0].Name] == nil {
			fail("reveal needs an application of a specfun")
		}
		sf := specFuns[e.Args[0].Name]
		ts, vs := c.specArgs(sf, e.Args[0].Args)
		app := c.specApp(sf, ts)
		saved := map[string]Value{}
		for i, p := range sf.Params {
			if old, ok := c.bound[p[0]]; ok {
				saved[p[0]] = old
			}
			c.bound[p[0]] = vs[i]
		}
		body := c.norm(c.eval(sf.Body))
		for _, p := range sf.Params {
			if old, ok := saved[p[0]]; ok {
				c.bound[p[0]] = old
			} else {
				delete(c.bound, p[0])
			}
		}
		c.side = append(c.side, c.eq(app, body))
		return VBool{TTrue}
	}
	argn := func(n int) {
		if len(e.Args) != n {
			fail("%s takes %d arguments", e.Name, n)
		}
	}
	switch e.Name {
	case "len":
		argn(1)
		v := c.norm(c.eval(e.Args[0]))
		switch x := v.(type) {
		case VStr, CBytes:
			return VBV{Blen(bytesTerm(x)), true}
		case VList:
			return VBV{x.Len, true}
		case CRecs:
			return CNum{big.NewInt(int64(len(x.Recs)))}
		}
		fail("len of %s", describe(v))
	case "cat":
		var t *Term
		for _, a := range e.Args {
			b := c.bytesArg(a)
			if t == nil {
				t = b
			} else {
				t = Cat(t, b)
			}
		}
		return VStr{t}
	case "be32":
		argn(1)
		return VStr{be32(c.asBV(c.eval(e.Args[0]), 32))}
	case "be64":
		argn(1)
		return VStr{be64(c.asBV(c.eval(e.Args[0]), 64))}
	case "u32be":
		argn(2)
		return VBV{beRead(c.bytesArg(e.Args[0]), c.asBV(c.eval(e.Args[1]), 64), 4), false}
	case "u64be":
		argn(2)
		return VBV{beRead(c.bytesArg(e.Args[0]), c.asBV(c.eval(e.Args[1]), 64), 8), false}
	case "u256be":
		argn(2)
		return VBV{ZeroExt(bigW, beRead(c.bytesArg(e.Args[0]), c.asBV(c.eval(e.Args[1]), 64), 32)), true}
	case "be256":
		// 32-byte big-endian encoding of a non-negative amount < 2^256
		argn(1)
		v := c.asBV(c.eval(e.Args[0]), bigW)
		arr := ZeroArr
		for i := 0; i < 32; i++ {
			arr = storeNZ(arr, uint64(i), Extract(255-8*i, 248-8*i, v))
		}
		return VStr{MkBytes(arr, BV(64, 32))}
	case "zeros":
		argn(1)
		n, ok := c.eval(e.Args[0]).(CNum)
		if !ok {
			fail("zeros needs a literal")
		}
		return VStr{zerosBytes(int(n.N.Int64()))}
	case "pad32":
		// 12 zero bytes followed by the first 20 bytes of the argument (as copy(dst[12:], src) does)
		argn(1)
		b := c.bytesArg(e.Args[0])
		arr := ZeroArr
		for i := 0; i < 20; i++ {
			by := Ite(BVUlt(BV(64, int64(i)), Blen(b)), Select(Barr(b), BV(64, int64(i))), BV(8, 0))
			arr = storeNZ(arr, uint64(12+i), by)
		}
		return VStr{MkBytes(arr, BV(64, 32))}
	case "accBytes":
		argn(1)
		return VStr{AccBytes(c.bytesArg(e.Args[0]))}
	case "validBech32":
		argn(1)
		return VBool{ValidBech32(c.bytesArg(e.Args[0]))}
	case "lower", "keccak", "hexenc", "fromHex", "hexdec":
		argn(1)
		return VStr{App(e.Name, SBytes, c.bytesArg(e.Args[0]))}
	case "validDenom", "validHex":
		argn(1)
		return VBool{App(e.Name, SBool, c.bytesArg(e.Args[0]))}
	case "foldEq":
		argn(2)
		return VBool{App("foldEq", SBool, c.bytesArg(e.Args[0]), c.bytesArg(e.Args[1]))}
	case "bech32":
		argn(1)
		return VStr{App("bech32", SBytes, Var("acctPrefix", SBytes), c.bytesArg(e.Args[0]))}
	case "mintingDenom":
		argn(0)
		return VStr{App("mintingDenom", SBytes, c.pre.ext)}
	case "emitErr":
		argn(1)
		n := c.eval(e.Args[0]).(CNum)
		return VBool{Var(fmt.Sprintf("emitErr!%d", c.evBaseEmit()+int(n.N.Int64())), SBool)}
	case "modulePadded":
		argn(0)
		m := moduleAddrTerm()
		arr := ZeroArr
		for i := 0; i < 20; i++ {
			arr = Store(arr, BV(64, int64(12+i)), Select(Barr(m), BV(64, int64(i))))
		}
		return VStr{MkBytes(arr, BV(64, 32))}
	case "encMessage":
		// version, source, destination, nonce, sender, recipient, caller, body  (CCTP header layout).
		// The three address fields are 32 bytes wide: the layout takes bytes [0,32) of each argument.
		argn(8)
		t := Cat(be32(c.asBV(c.eval(e.Args[0]), 32)), be32(c.asBV(c.eval(e.Args[1]), 32)))
		t = Cat(t, be32(c.asBV(c.eval(e.Args[2]), 32)))
		t = Cat(t, be64(c.asBV(c.eval(e.Args[3]), 64)))
		t = Cat(t, fixN(c.bytesArg(e.Args[4]), 32))
		t = Cat(t, fixN(c.bytesArg(e.Args[5]), 32))
		t = Cat(t, fixN(c.bytesArg(e.Args[6]), 32))
		t = Cat(t, c.bytesArg(e.Args[7]))
		return VStr{t}
	case "encBurn":
		// version, burnToken, mintRecipient, amount, messageSender (32-byte fields)
		argn(5)
		amt := c.call(&Expr{Op: "call", Name: "be256", Args: []*Expr{e.Args[3]}}).(VStr).T
		t := Cat(be32(c.asBV(c.eval(e.Args[0]), 32)), fixN(c.bytesArg(e.Args[1]), 32))
		t = Cat(t, fixN(c.bytesArg(e.Args[2]), 32))
		t = Cat(t, amt)
		t = Cat(t, fixN(c.bytesArg(e.Args[4]), 32))
		return VStr{t}
	case "stLimits", "stPairs", "stNonces", "stMessengers":
		// the other four collections as ordered lists (abstract; see spec.go)
		argn(0)
		st := c.state()
		m := map[string][3]string{"stLimits": {"limitList", "nLimits", "PerMessageBurnLimit"}, "stPairs": {"pairList", "nPairs", "TokenPair"},
			"stNonces": {"nonceList", "nNonces", "Nonce"}, "stMessengers": {"msgrList", "nMsgrs", "RemoteTokenMessenger"}}[e.Name]
		prefix, cnt, typ := m[0], m[1], m[2]
		l := VList{ElemT: c.ex.pkgs[repoPrefix+"/types"].Type(typ).Type(), Len: st.abs[cnt], Cols: map[string]*Term{}}
		if c.ex.mode == "L2" {
			l.Len = coupling(st, cnt, nil)
		}
		for _, cp := range compsWithPrefix(prefix) {
			col := strings.TrimPrefix(cp.Name, prefix+".")
			if c.ex.mode == "L2" {
				// the column as an array defined pointwise from the raw store (definitional side condition)
				arr := Fresh(prefix+"Of."+col, SArray(SBV(64), cp.ValSort))
				j := Var("q$al", SBV(64))
				c.side = append(c.side, Forall([]*Term{j}, Eq(Select(arr, j), coupling(st, cp.Name, []*Term{j})), []*Term{Select(arr, j)}))
				l.Cols[col] = arr
				continue
			}
			l.Cols[col] = st.abs[cp.Name]
		}
		return l
	case "stAttestersOf":
		// attester list of the given state reference (st or old(st))
		argn(1)
		cc, ok := c.eval(e.Args[0]).(CComp)
		if !ok || cc.Prefix != "" {
			fail("stAttestersOf needs st or old(st)")
		}
		st := c.state()
		if cc.Old {
			st = c.pre
		}
		return VList{ElemT: c.ex.attesterType(), Len: st.abs["nAtt"], Cols: map[string]*Term{"Attester": st.abs["attList"]}}
	case "stAttesters":
		// the enabled-attester list of the state, in store order (what GetAllAttesters returns)
		argn(0)
		st := c.state()
		if c.ex.mode == "L2" {
			// the list as an array defined pointwise from the raw store (definitional side condition)
			arr := Fresh("attListOf", SArray(SBV(64), SBytes))
			j := Var("q$al", SBV(64))
			c.side = append(c.side, Forall([]*Term{j}, Eq(Select(arr, j), coupling(st, "attList", []*Term{j})), []*Term{Select(arr, j)}))
			return VList{ElemT: c.ex.attesterType(), Len: coupling(st, "nAtt", nil), Cols: map[string]*Term{"Attester": arr}}
		}
		return VList{ElemT: c.ex.attesterType(), Len: st.abs["nAtt"], Cols: map[string]*Term{"Attester": st.abs["attList"]}}
	case "normV":
		// a 65-byte signature with the recovery byte normalised: 27/28 become 0/1
		argn(1)
		sg := fixN(c.bytesArg(e.Args[0]), 65)
		v := Select(Barr(sg), BV(64, 64))
		nv := Ite(Or(Eq(v, BV(8, 27)), Eq(v, BV(8, 28))), BVSub(v, BV(8, 27)), v)
		arr := ZeroArr
		for i := 0; i < 64; i++ {
			arr = storeNZ(arr, uint64(i), Select(Barr(sg), BV(64, int64(i))))
		}
		arr = storeNZ(arr, 64, nv)
		return VStr{MkBytes(arr, BV(64, 65))}
	case "ecrecOK":
		argn(2)
		return VBool{App("ecrecOK", SBool, c.bytesArg(e.Args[0]), c.bytesArg(e.Args[1]))}
	case "ecrecKey":
		argn(2)
		return VStr{App("ecrecKey", SBytes, c.bytesArg(e.Args[0]), c.bytesArg(e.Args[1]))}
	case "keyX":
		argn(1)
		return VBV{ZeroExt(bigW, beRead(c.bytesArg(e.Args[0]), BV(64, 1), 32)), true}
	case "keyY":
		argn(1)
		return VBV{ZeroExt(bigW, beRead(c.bytesArg(e.Args[0]), BV(64, 33), 32)), true}
	case "addrOfKey":
		// Ethereum-style address of an uncompressed public key (0x04 || X || Y)
		argn(1)
		k := c.bytesArg(e.Args[0])
		return VStr{App("addrOf", SBytes, ZeroExt(bigW, beRead(k, BV(64, 1), 32)), ZeroExt(bigW, beRead(k, BV(64, 33), 32)))}
	case "addrLess":
		// lexicographic order on 20-byte addresses
		argn(2)
		return VBool{BVUlt(beRead(c.bytesArg(e.Args[0]), BV(64, 0), 20), beRead(c.bytesArg(e.Args[1]), BV(64, 0), 20))}
	case "hint":
		// hint(e): always true; introduces the term trig(e) that quantified clauses list as their trigger
		argn(1)
		t := c.asBVAny(c.eval(e.Args[0]))
		return VBool{App("trig"+fmt.Sprint(t.Width()), SBool, t)}
	case "mem":
		// mem(s, p): byte p of the memory behind slice parameter s (no bounds interpretation)
		argn(2)
		if e.Args[0].Op != "ident" {
			fail("mem needs a parameter name")
		}
		st := c.state()
		var sl VSlice
		if v, ok := c.vars[e.Args[0].Name].(VSlice); ok {
			sl = v
		} else if c.fn != nil {
			// a local byte array / slice, named by its source variable (or "makeslice" for make([]byte, N))
			lv, ok := c.localRaw(e.Args[0].Name)
			if !ok {
				fail("mem: unknown memory %s", e.Args[0].Name)
			}
			switch x := lv.(type) {
			case VSlice:
				sl = x
			case VByteArr:
				sl = VSlice{Obj: x.Obj, Off: BV(64, 0), Len: BV(64, int64(x.N)), Cap: BV(64, int64(x.N)), Nil: TFalse}
			default:
				fail("mem: %s is not byte memory", e.Args[0].Name)
			}
		} else {
			fail("mem: %s is not a byte slice parameter", e.Args[0].Name)
		}
		if sl.Obj < 0 {
			fail("mem: %s has no backing memory", e.Args[0].Name)
		}
		if _, ok := st.heap[sl.Obj]; !ok {
			st = c.post
		}
		return VBV{Select(st.heap[sl.Obj], BVAdd(sl.Off, c.asBV(c.eval(e.Args[1]), 64))), false}
	case "leftPad32":
		// b right-aligned in 32 bytes, zero-filled on the left (meaningful for len(b) <= 32)
		argn(1)
		b := c.bytesArg(e.Args[0])
		pad := BVSub(BV(64, 32), Blen(b))
		arr := ZeroArr
		for i := 0; i < 32; i++ {
			iv := BV(64, int64(i))
			arr = storeNZ(arr, uint64(i), Ite(BVUlt(iv, pad), BV(8, 0), Select(Barr(b), BVSub(iv, pad))))
		}
		return VStr{MkBytes(arr, BV(64, 32))}
	case "trimPrefix":
		argn(2)
		return VStr{App("trimPrefix", SBytes, c.bytesArg(e.Args[0]), c.bytesArg(e.Args[1]))}
	case "base58dec":
		argn(1)
		return VStr{App("base58dec", SBytes, c.bytesArg(e.Args[0]))}
	case "hasPrefix":
		argn(2)
		p := c.bytesArg(e.Args[1])
		n, ok := Blen(p).U64()
		if !ok {
			fail("hasPrefix needs a constant prefix")
		}
		sT := c.bytesArg(e.Args[0])
		conj := []*Term{BVUge(Blen(sT), BVU(64, n))}
		for i := uint64(0); i < n; i++ {
			conj = append(conj, Eq(Select(Barr(sT), BVU(64, i)), Select(Barr(p), BVU(64, i))))
		}
		return VBool{And(conj...)}
	case "mapHas":
		// mapHas(m, s): the string s is a key of the local map[string]struct{} m
		argn(2)
		mv := c.norm(c.eval(e.Args[0]))
		m, ok := mv.(VMap)
		if !ok || m.Cell <= 0 {
			fail("mapHas: not a map")
		}
		st := c.state()
		cell, ok := st.cells[m.Cell].(VMapVal)
		if !ok {
			cell = c.post.cells[m.Cell].(VMapVal)
		}
		return VBool{Select(cell.Set, c.bytesArg(e.Args[1]))}
	case "decoded":
		// decoded(T, field, bz): field of the proto message of type T that the bytes bz decode to (codec model)
		argn(3)
		if e.Args[0].Op != "ident" || e.Args[1].Op != "ident" {
			fail("decoded(Type, Field, bytes)")
		}
		typ, field := e.Args[0].Name, e.Args[1].Name
		for _, f := range protoTypes[typ] {
			if f.Name == field || strings.ReplaceAll(f.Name, ".", "_") == field {
				return wrapSort(dec(typ, f.Name, f.Sort, c.bytesArg(e.Args[2])))
			}
		}
		fail("decoded: unknown field %s.%s", typ, field)
	case "paginatedPrefix":
		// the raw key prefix of the store handed to query.Paginate by this call ("" when none was made)
		argn(0)
		ps := c.post.pages
		if len(ps) == 0 {
			return VStr{EmptyBytes}
		}
		if len(ps) > 1 {
			fail("more than one Paginate call")
		}
		return VStr{ps[0]}
	case "hintRange":
		// hintRange(base, n): hint(base), hint(base+1), ... hint(base+n-1)  (always true)
		argn(2)
		base := c.asBV(c.eval(e.Args[0]), 64)
		n, ok := c.eval(e.Args[1]).(CNum)
		if !ok {
			fail("hintRange needs a literal count")
		}
		var conj []*Term
		for k := int64(0); k < n.N.Int64(); k++ {
			conj = append(conj, App("trig64", SBool, BVAdd(base, BV(64, k))))
		}
		return VBool{And(conj...)}
	case "iterPos":
		// position of the function's store iterator (number of entries already passed)
		argn(0)
		st := c.state()
		for _, fr := range st.frames {
			for _, v := range fr.Regs {
				if it, ok := v.(VIter); ok {
					return VBV{st.cells[it.Cell].(VBV).T, false}
				}
			}
		}
		fail("no iterator in scope")
	case "validAtt":
		// acceptance predicate of C01 over (message, attestation, attester list, threshold)
		argn(4)
		l, ok := c.norm(c.eval(e.Args[2])).(VList)
		if !ok {
			fail("validAtt: attester list expected")
		}
		return VBool{App("validAtt", SBool, c.bytesArg(e.Args[0]), c.bytesArg(e.Args[1]), l.Cols["Attester"], l.Len, c.asBV(c.eval(e.Args[3]), 32))}
	case "depFails":
		// outcome of the k-th dependency call (bank / fiat-token-factory) made by this function: a free boolean input
		argn(1)
		n, ok := c.eval(e.Args[0]).(CNum)
		if !ok {
			fail("depFails needs a literal index")
		}
		return VBool{Var(fmt.Sprintf("depFail!%d", c.pre.callN+int(n.N.Int64())), SBool)}
	case "inited":
		argn(0)
		var conj []*Term
		for _, r := range []string{"owner", "attesterManager", "pauser", "tokenController"} {
			conj = append(conj, readComp(c.ex.mode, c.state(), r+".set", nil))
		}
		return VBool{And(conj...)}
	case "unchanged":
		// unchanged(st.x) : every component under the prefix is equal in pre and post
		argn(1)
		cc, ok := c.eval(e.Args[0]).(CComp)
		if !ok {
			fail("unchanged needs a state prefix")
		}
		return VBool{c.unchanged(cc.Prefix)}
	case "int":
		argn(1)
		v := c.norm(c.eval(e.Args[0]))
		if b, ok := v.(VBV); ok {
			return VBV{toBV64(b), true}
		}
		return v
	case "uint32":
		argn(1)
		t := c.asBVAny(c.eval(e.Args[0]))
		return VBV{Extract(31, 0, ZeroExt(64, t)), false}
	case "uint64":
		argn(1)
		t := c.asBVAny(c.eval(e.Args[0]))
		return VBV{ZeroExt(64, t), false}
	case "big":
		argn(1)
		v := c.norm(c.eval(e.Args[0]))
		switch x := v.(type) {
		case VBig:
			return VBV{x.V, true}
		case VBV:
			return VBV{ZeroExt(bigW, x.T), true}
		case CNum:
			return VBV{BVBig(bigW, x.N), true}
		}
	}
	fail("unknown spec function %s", e.Name)
	return nil
}

func (c *EvalCtx) asBVAny(v Value) *Term {
	v = c.norm(v)
	if b, ok := v.(VBV); ok {
		return b.T
	}
	if n, ok := v.(CNum); ok {
		return BVBig(64, n.N)
	}
	fail("integer expected")
	return nil
}

func (c *EvalCtx) evBaseEmit() int { return c.pre.emitN }

func (c *EvalCtx) unchanged(prefix string) *Term {
	var conj []*Term
	cs := comps
	for i := range cs {
		n := cs[i].Name
		if prefix != "" && n != prefix && !strings.HasPrefix(n, prefix+".") {
			continue
		}
		conj = append(conj, c.compUnchanged(&cs[i], nil))
	}
	return And(conj...)
}

// compUnchanged: component equal in pre and post, except at the listed key tuples.
func (c *EvalCtx) compUnchanged(comp *Comp, except [][]*Term) *Term {
	if c.ex.mode != "L2" && len(except) == 0 {
		return Eq(c.post.abs[comp.Name], c.pre.abs[comp.Name])
	}
	// pointwise with skolem keys
	var keys []*Term
	for i, ks := range comp.KeySorts {
		k := Fresh(fmt.Sprintf("sk.%s.%d", comp.Name, i), ks)
		if ks == SBytes {
			c.side = append(c.side, App("canon", SBool, k), BVUle(Blen(k), maxLen))
		}
		keys = append(keys, k)
	}
	same := Eq(readComp(c.ex.mode, c.post, comp.Name, keys), readComp(c.ex.mode, c.pre, comp.Name, keys))
	var ors []*Term
	for _, ex := range except {
		var conj []*Term
		for i := range keys {
			conj = append(conj, Eq(keys[i], ex[i]))
		}
		ors = append(ors, And(conj...))
	}
	ors = append(ors, same)
	return Or(ors...)
}

// fixN is bytes [0,n) of b as an n-byte string (equal to b when b is canonical and n bytes long).
func fixN(b *Term, n int) *Term {
	if l, ok := Blen(b).U64(); ok && int(l) == n {
		return b
	}
	return snapArr(Barr(b), BV(64, 0), BV(64, int64(n)))
}

func occursTerm(v, t *Term) bool { return occurs(v, t) }
