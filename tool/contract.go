package main

// Contract files: //go:build verif, comment-only Go files in /repo holding
// Gobra-style "//@" blocks keyed by function. This file parses them.

import (
	"fmt"
	"math/big"
	"os"
	"path/filepath"
	"regexp"
	"strings"
	"unicode"
)

type Clause struct {
	Callee string // assert@<callee>: ghost assertion placed before calls to a callee whose name contains this
	Kind   string // requires ensures modifies emits calls invariant assigns
	Label  string
	Props  []string
	E      *Expr
	Mods   []*Expr // modifies targets
	Text   string
	Loop   int
	File   string
	Line   int
	// untagged clause of a contract that serves some property other than the two whole-module sweeps (C18, C20): it is
	// checked under those properties, and only assumed in the sweeps
	SkipSweep bool
	// untagged clause of a contract with a `serves` line: checked under the served properties only (assumed elsewhere)
	OnlyUnder []string
}

type Contract struct {
	Key      string // pkg.Recv.Name as produced by fnName
	Params   []string
	Results  []string
	Clauses  []*Clause
	Serves   []string // properties whose cone contains this contract as a whole
	Nullable []string // pointer parameters that may be nil (query requests)
	Without  []string // prelude functions kept uninterpreted (their axioms are not needed by this function's proof)
	Trusted  bool     // "trusted": contract is assumed, body not verified (listed in evidence)
	LoopOver map[int]string       // "loop N over name": loop N is the loop whose guard runs to len(name) (parameter or field name)
	Locals   map[string]LocalDesc // "local name type [#n]": structural fallback when the source name is gone (renamed local)
	Layer    string
	File     string
	Line     int
}

func (c *Contract) byKind(k string) []*Clause {
	var out []*Clause
	for _, cl := range c.Clauses {
		if cl.Kind == k {
			out = append(out, cl)
		}
	}
	return out
}

// LocalDesc identifies a local variable by shape: the N-th phi / alloc / make of the given Go type in block order.
type LocalDesc struct {
	Type string
	N    int
}

type Lemma struct {
	Name  string
	Props []string
	Vars  [][2]string // name, type
	Hyps  []*Expr
	Goal  *Expr
	File  string
	Line  int
}

var propRe = regexp.MustCompile(`C[0-9]{2}`)
var headRe = regexp.MustCompile(`^func\s+(?:\(\s*\*?\s*([A-Za-z_][A-Za-z0-9_]*)\s*\)\s*)?([A-Za-z_][A-Za-z0-9_$]*)\s*\(([^)]*)\)\s*(?:\(([^)]*)\))?\s*$`)
var clauseRe = regexp.MustCompile(`^(requires|ensures|modifies|emits|calls|invariant|assigns|trusted|layer|loop|serves|defines|nullable|without|local|assert@[A-Za-z0-9_.]+)\s*(?:\[([^\]]*)\])?\s*(.*)$`)

type ContractFile struct {
	Contracts []*Contract
	Steps     []*Clause // step[label] expr: must hold over (old state, new state, msg) for every successful transaction
	Lemmas    []*Lemma
	SpecFuns  []*SpecFun
}

// SpecFun is an opaque spec function: uninterpreted in every obligation, except where reveal(f(args))
// adds the defining equation for those arguments.
type SpecFun struct {
	Name   string
	Params [][2]string
	Ret    string
	Body   *Expr
}

var specFunRe = regexp.MustCompile(`^specfun\s+([A-Za-z_][A-Za-z0-9_]*)\s*\(([^)]*)\)\s*:\s*([A-Za-z0-9_\[\]]+)\s*:=\s*(.*)$`)

// ParseContractFile reads one verif_contracts.go.
func ParseContractFile(path string) (*ContractFile, error) {
	data, err := os.ReadFile(path)
	if err != nil {
		return nil, err
	}
	lines := strings.Split(string(data), "\n")
	pkg := ""
	out := &ContractFile{}
	var cur *Contract
	var curLemma *Lemma
	// join continuation lines: a "//@" line starting with whitespace+"..." continues the previous
	type ln struct {
		text string
		no   int
	}
	var ls []ln
	for i, l := range lines {
		t := strings.TrimSpace(l)
		if strings.HasPrefix(t, "package ") && pkg == "" {
			pkg = strings.TrimSpace(strings.TrimPrefix(t, "package "))
			continue
		}
		if !strings.HasPrefix(t, "//@") {
			continue
		}
		body := strings.TrimPrefix(t, "//@")
		if strings.HasPrefix(strings.TrimSpace(body), "...") && len(ls) > 0 {
			ls[len(ls)-1].text += " " + strings.TrimSpace(strings.TrimPrefix(strings.TrimSpace(body), "..."))
			continue
		}
		ls = append(ls, ln{strings.TrimSpace(body), i + 1})
	}
	curLoop := -1
	macros := map[string]macroDef{}
	for _, l := range ls {
		if strings.HasPrefix(l.text, "macro ") {
			m := macroRe.FindStringSubmatch(l.text)
			if m == nil {
				return nil, fmt.Errorf("%s:%d: bad macro definition", path, l.no)
			}
			macros[m[1]] = macroDef{params: splitNames(m[2]), body: m[3]}
		}
	}
	for _, l := range ls {
		t := l.text
		if t == "" || strings.HasPrefix(t, "macro ") {
			continue
		}
		if strings.HasPrefix(t, "step[") {
			t2, err := expandMacros(t, macros, 0)
			if err != nil {
				return nil, fmt.Errorf("%s:%d: %v", path, l.no, err)
			}
			end := strings.Index(t2, "]")
			label := t2[len("step["):end]
			e, err := ParseExpr(strings.TrimSpace(t2[end+1:]))
			if err != nil {
				return nil, fmt.Errorf("%s:%d: %v", path, l.no, err)
			}
			out.Steps = append(out.Steps, &Clause{Kind: "step", Label: label, Props: propRe.FindAllString(label, -1), E: e, Text: strings.TrimSpace(t2[end+1:]), File: path, Line: l.no})
			continue
		}
		if strings.HasPrefix(t, "specfun ") {
			t2, err := expandMacros(t, macros, 0)
			if err != nil {
				return nil, fmt.Errorf("%s:%d: %v", path, l.no, err)
			}
			m := specFunRe.FindStringSubmatch(t2)
			if m == nil {
				return nil, fmt.Errorf("%s:%d: bad specfun", path, l.no)
			}
			sf := &SpecFun{Name: m[1], Ret: m[3]}
			for _, v := range strings.Split(m[2], ",") {
				pp := strings.SplitN(strings.TrimSpace(v), ":", 2)
				if len(pp) != 2 {
					return nil, fmt.Errorf("%s:%d: bad specfun parameter", path, l.no)
				}
				sf.Params = append(sf.Params, [2]string{strings.TrimSpace(pp[0]), strings.TrimSpace(pp[1])})
			}
			body, err := ParseExpr(m[4])
			if err != nil {
				return nil, fmt.Errorf("%s:%d: %v", path, l.no, err)
			}
			sf.Body = body
			out.SpecFuns = append(out.SpecFuns, sf)
			continue
		}
		if !strings.HasPrefix(t, "func") {
			var err error
			t, err = expandMacros(t, macros, 0)
			if err != nil {
				return nil, fmt.Errorf("%s:%d: %v", path, l.no, err)
			}
		}
		if strings.HasPrefix(t, "func") {
			m := headRe.FindStringSubmatch(t)
			if m == nil {
				return nil, fmt.Errorf("%s:%d: bad function header %q", path, l.no, t)
			}
			key := pkg + "."
			if m[1] != "" {
				key += m[1] + "."
			}
			key += m[2]
			cur = &Contract{Key: key, Params: splitNames(m[3]), Results: splitNames(m[4]), File: path, Line: l.no, Layer: "L3"}
			out.Contracts = append(out.Contracts, cur)
			curLemma = nil
			curLoop = -1
			continue
		}
		if strings.HasPrefix(t, "lemma ") {
			// lemma name[props] (v: T, ...)
			rest := strings.TrimPrefix(t, "lemma ")
			name := rest
			vars := ""
			if i := strings.Index(rest, "("); i >= 0 {
				name = strings.TrimSpace(rest[:i])
				vars = strings.TrimSuffix(strings.TrimSpace(rest[i+1:]), ")")
			}
			curLemma = &Lemma{Name: name, Props: propRe.FindAllString(name, -1), File: path, Line: l.no}
			for _, v := range strings.Split(vars, ",") {
				v = strings.TrimSpace(v)
				if v == "" {
					continue
				}
				p := strings.SplitN(v, ":", 2)
				if len(p) != 2 {
					return nil, fmt.Errorf("%s:%d: bad lemma variable %q", path, l.no, v)
				}
				curLemma.Vars = append(curLemma.Vars, [2]string{strings.TrimSpace(p[0]), strings.TrimSpace(p[1])})
			}
			out.Lemmas = append(out.Lemmas, curLemma)
			cur = nil
			continue
		}
		if curLemma != nil {
			switch {
			case strings.HasPrefix(t, "assume "):
				e, err := ParseExpr(strings.TrimPrefix(t, "assume "))
				if err != nil {
					return nil, fmt.Errorf("%s:%d: %v", path, l.no, err)
				}
				curLemma.Hyps = append(curLemma.Hyps, e)
			case strings.HasPrefix(t, "prove "):
				e, err := ParseExpr(strings.TrimPrefix(t, "prove "))
				if err != nil {
					return nil, fmt.Errorf("%s:%d: %v", path, l.no, err)
				}
				curLemma.Goal = e
			default:
				return nil, fmt.Errorf("%s:%d: bad lemma line %q", path, l.no, t)
			}
			continue
		}
		m := clauseRe.FindStringSubmatch(t)
		if m == nil || cur == nil {
			return nil, fmt.Errorf("%s:%d: cannot parse clause %q", path, l.no, t)
		}
		kind, label, rest := m[1], m[2], strings.TrimSpace(m[3])
		if (kind == "emits" || kind == "calls") && rest == "" {
			// "calls []": the bracket is the (empty) list, not a label
			rest, label = "["+label+"]", ""
		}
		switch kind {
		case "trusted":
			cur.Trusted = true
			continue
		case "layer":
			cur.Layer = rest
			continue
		case "serves":
			cur.Serves = append(cur.Serves, propRe.FindAllString(rest, -1)...)
			continue
		case "without":
			cur.Without = append(cur.Without, splitNames(strings.ReplaceAll(rest, " ", ","))...)
			continue
		case "nullable":
			cur.Nullable = append(cur.Nullable, splitNames(rest)...)
			continue
		case "local":
			// local name type [#n]
			f := strings.Fields(rest)
			if len(f) < 2 {
				return nil, fmt.Errorf("%s:%d: bad local clause", path, l.no)
			}
			d := LocalDesc{}
			if last := f[len(f)-1]; strings.HasPrefix(last, "#") && len(f) > 2 {
				fmt.Sscanf(last[1:], "%d", &d.N)
				f = f[:len(f)-1]
			}
			d.Type = strings.Join(f[1:], " ")
			if cur.Locals == nil {
				cur.Locals = map[string]LocalDesc{}
			}
			cur.Locals[f[0]] = d
			continue
		case "loop":
			// "loop N invariant[label] expr" or "loop N assigns a, b"
			var n int
			var sub string
			if _, err := fmt.Sscanf(rest, "%d", &n); err != nil {
				return nil, fmt.Errorf("%s:%d: bad loop clause", path, l.no)
			}
			sub = strings.TrimSpace(strings.TrimLeftFunc(rest, func(r rune) bool { return unicode.IsDigit(r) || r == ' ' }))
			if strings.HasPrefix(sub, "over ") {
				if cur.LoopOver == nil {
					cur.LoopOver = map[int]string{}
				}
				cur.LoopOver[n] = strings.TrimSpace(sub[5:])
				continue
			}
			m2 := clauseRe.FindStringSubmatch(sub)
			if m2 == nil {
				return nil, fmt.Errorf("%s:%d: bad loop clause %q", path, l.no, sub)
			}
			kind, label, rest = m2[1], m2[2], strings.TrimSpace(m2[3])
			curLoop = n
		default:
			curLoop = -1
		}
		cl := &Clause{Kind: kind, Label: label, Props: propRe.FindAllString(label, -1), Text: rest, Loop: curLoop, File: path, Line: l.no}
		if strings.HasPrefix(kind, "assert@") {
			cl.Callee = strings.TrimPrefix(kind, "assert@")
			cl.Kind = "assert"
		}
		if kind == "defines" {
			parts := strings.SplitN(rest, ":=", 2)
			if len(parts) != 2 {
				return nil, fmt.Errorf("%s:%d: defines needs ':='", path, l.no)
			}
			lhs, err := ParseExpr(strings.TrimSpace(parts[0]))
			if err != nil {
				return nil, fmt.Errorf("%s:%d: %v", path, l.no, err)
			}
			rhs, err := ParseExpr(strings.TrimSpace(parts[1]))
			if err != nil {
				return nil, fmt.Errorf("%s:%d: %v", path, l.no, err)
			}
			cl.E = &Expr{Op: "binary", Name: "<==>", Args: []*Expr{lhs, rhs}}
			cur.Clauses = append(cur.Clauses, cl)
			continue
		}
		if kind == "modifies" || kind == "assigns" {
			if rest != "none" && rest != "" {
				for _, part := range splitTop(rest, ',') {
					e, err := ParseExpr(part)
					if err != nil {
						return nil, fmt.Errorf("%s:%d: %v", path, l.no, err)
					}
					cl.Mods = append(cl.Mods, e)
				}
			}
		} else {
			e, err := ParseExpr(rest)
			if err != nil {
				return nil, fmt.Errorf("%s:%d: %v in %q", path, l.no, err, rest)
			}
			cl.E = e
		}
		cur.Clauses = append(cur.Clauses, cl)
	}
	return out, nil
}

type macroDef struct {
	params []string
	body   string
}

var identRe = regexp.MustCompile(`^[A-Za-z_][A-Za-z0-9_]*$`)

var macroRe = regexp.MustCompile(`^macro\s+([A-Za-z_][A-Za-z0-9_]*)\s*\(([^)]*)\)\s*:=\s*(.*)$`)

func expandMacros(t string, macros map[string]macroDef, depth int) (string, error) {
	if depth > 8 {
		return "", fmt.Errorf("macro expansion too deep")
	}
	for name, def := range macros {
		for {
			idx := findCall(t, name)
			if idx < 0 {
				break
			}
			// parse balanced argument list
			start := idx + len(name) + 1
			d := 1
			j := start
			for j < len(t) && d > 0 {
				switch t[j] {
				case '(', '[', '{':
					d++
				case ')', ']', '}':
					d--
				}
				j++
			}
			if d != 0 {
				return "", fmt.Errorf("unbalanced macro call %s", name)
			}
			argText := t[start : j-1]
			var args []string
			if strings.TrimSpace(argText) != "" {
				args = splitTop(argText, ',')
			}
			if len(args) != len(def.params) {
				return "", fmt.Errorf("macro %s takes %d arguments, got %d", name, len(def.params), len(args))
			}
			body := def.body
			for i, p := range def.params {
				re := regexp.MustCompile(`\b` + regexp.QuoteMeta(p) + `\b`)
				body = re.ReplaceAllLiteralString(body, "\x00"+fmt.Sprint(i)+"\x00")
			}
			for i, a := range args {
				rep := "(" + a + ")"
				if identRe.MatchString(a) {
					rep = a // a bare name may be used in call position inside the macro
				}
				body = strings.ReplaceAll(body, "\x00"+fmt.Sprint(i)+"\x00", rep)
			}
			exp, err := expandMacros(body, macros, depth+1)
			if err != nil {
				return "", err
			}
			t = t[:idx] + "(" + exp + ")" + t[j:]
		}
	}
	return t, nil
}

// findCall finds `name(` at an identifier boundary.
func findCall(t, name string) int {
	from := 0
	for {
		i := strings.Index(t[from:], name+"(")
		if i < 0 {
			return -1
		}
		i += from
		if i == 0 || !(unicode.IsLetter(rune(t[i-1])) || unicode.IsDigit(rune(t[i-1])) || t[i-1] == '_' || t[i-1] == '.') {
			return i
		}
		from = i + 1
	}
}

func splitNames(s string) []string {
	var out []string
	for _, p := range strings.Split(s, ",") {
		p = strings.TrimSpace(p)
		if p != "" {
			out = append(out, p)
		}
	}
	return out
}

func splitTop(s string, sep byte) []string {
	var out []string
	depth := 0
	start := 0
	for i := 0; i < len(s); i++ {
		switch s[i] {
		case '(', '[', '{':
			depth++
		case ')', ']', '}':
			depth--
		default:
			if s[i] == sep && depth == 0 {
				out = append(out, strings.TrimSpace(s[start:i]))
				start = i + 1
			}
		}
	}
	out = append(out, strings.TrimSpace(s[start:]))
	return out
}

func FindContractFiles(repo string) []string {
	var out []string
	for _, d := range []string{"x/cctp/keeper", "x/cctp/types", "x/cctp", "x/cctp/client/cli"} {
		p := filepath.Join(repo, d, "verif_contracts.go")
		if _, err := os.Stat(p); err == nil {
			out = append(out, p)
		}
	}
	return out
}

// ---- expressions

type FieldInit struct {
	Name string
	E    *Expr
}

type Expr struct {
	Op     string // ident num str nil call field index slice unary binary old list struct forall exists ite
	Name   string // ident name, operator, field name, call name, struct type
	Args   []*Expr
	Num    *big.Int
	Str    string
	Fields []FieldInit
	BVar   string
	BType  string
}

func (e *Expr) String() string {
	switch e.Op {
	case "ident":
		return e.Name
	case "num":
		return e.Num.String()
	case "str":
		return fmt.Sprintf("%q", e.Str)
	case "nil":
		return "nil"
	case "field":
		return e.Args[0].String() + "." + e.Name
	case "index":
		return e.Args[0].String() + "[" + e.Args[1].String() + "]"
	case "call":
		var as []string
		for _, a := range e.Args {
			as = append(as, a.String())
		}
		return e.Name + "(" + strings.Join(as, ", ") + ")"
	case "binary":
		return "(" + e.Args[0].String() + " " + e.Name + " " + e.Args[1].String() + ")"
	case "unary":
		return e.Name + e.Args[0].String()
	case "old":
		return "old(" + e.Args[0].String() + ")"
	}
	return e.Op
}

type tok struct {
	kind string // id num str op eof
	text string
}

func lex(s string) ([]tok, error) {
	var out []tok
	i := 0
	for i < len(s) {
		c := s[i]
		switch {
		case c == ' ' || c == '\t':
			i++
		case unicode.IsLetter(rune(c)) || c == '_' || c == '$':
			j := i
			for j < len(s) && (unicode.IsLetter(rune(s[j])) || unicode.IsDigit(rune(s[j])) || s[j] == '_' || s[j] == '$') {
				j++
			}
			out = append(out, tok{"id", s[i:j]})
			i = j
		case unicode.IsDigit(rune(c)):
			j := i
			for j < len(s) && (unicode.IsDigit(rune(s[j])) || s[j] == 'x' || (s[j] >= 'a' && s[j] <= 'f') || (s[j] >= 'A' && s[j] <= 'F')) {
				j++
			}
			out = append(out, tok{"num", s[i:j]})
			i = j
		case c == '"':
			j := i + 1
			for j < len(s) && s[j] != '"' {
				if s[j] == '\\' {
					j++
				}
				j++
			}
			if j >= len(s) {
				return nil, fmt.Errorf("unterminated string")
			}
			str := s[i+1 : j]
			str = strings.ReplaceAll(str, `\"`, `"`)
			out = append(out, tok{"str", str})
			i = j + 1
		default:
			for _, op := range []string{"<==>", "==>", "::", "==", "!=", "<=", ">=", "&&", "||", "<", ">", "+", "-", "*", "/", "%", "!", "(", ")", "[", "]", "{", "}", ",", ".", ":", "?"} {
				if strings.HasPrefix(s[i:], op) {
					out = append(out, tok{"op", op})
					i += len(op)
					goto next
				}
			}
			return nil, fmt.Errorf("unexpected character %q at %d", c, i)
		next:
		}
	}
	out = append(out, tok{"eof", ""})
	return out, nil
}

type parser struct {
	toks []tok
	pos  int
}

func ParseExpr(s string) (*Expr, error) {
	toks, err := lex(s)
	if err != nil {
		return nil, err
	}
	p := &parser{toks: toks}
	e, err := p.parseTop()
	if err != nil {
		return nil, err
	}
	if p.peek().kind != "eof" {
		return nil, fmt.Errorf("trailing input at %q", p.peek().text)
	}
	return e, nil
}

func (p *parser) peek() tok { return p.toks[p.pos] }
func (p *parser) next() tok { t := p.toks[p.pos]; p.pos++; return t }
func (p *parser) isOp(s string) bool {
	t := p.peek()
	return t.kind == "op" && t.text == s
}
func (p *parser) expect(s string) error {
	if !p.isOp(s) {
		return fmt.Errorf("expected %q, got %q", s, p.peek().text)
	}
	p.pos++
	return nil
}

func (p *parser) parseTop() (*Expr, error) {
	t := p.peek()
	if t.kind == "id" && (t.text == "forall" || t.text == "exists") {
		p.next()
		v := p.next()
		if v.kind != "id" {
			return nil, fmt.Errorf("quantifier: variable expected")
		}
		if err := p.expect(":"); err != nil {
			return nil, err
		}
		ty := p.next()
		if err := p.expect("::"); err != nil {
			return nil, err
		}
		body, err := p.parseTop()
		if err != nil {
			return nil, err
		}
		return &Expr{Op: t.text, BVar: v.text, BType: ty.text, Args: []*Expr{body}}, nil
	}
	return p.parseIff()
}

func (p *parser) parseIff() (*Expr, error) {
	l, err := p.parseImp()
	if err != nil {
		return nil, err
	}
	for p.isOp("<==>") {
		p.next()
		r, err := p.parseImp()
		if err != nil {
			return nil, err
		}
		l = &Expr{Op: "binary", Name: "<==>", Args: []*Expr{l, r}}
	}
	return l, nil
}

func (p *parser) parseImp() (*Expr, error) {
	l, err := p.parseTern()
	if err != nil {
		return nil, err
	}
	if p.isOp("==>") {
		p.next()
		var r *Expr
		if t := p.peek(); t.kind == "id" && (t.text == "forall" || t.text == "exists") {
			r, err = p.parseTop()
		} else {
			r, err = p.parseImp()
		}
		if err != nil {
			return nil, err
		}
		return &Expr{Op: "binary", Name: "==>", Args: []*Expr{l, r}}, nil
	}
	return l, nil
}

func (p *parser) parseTern() (*Expr, error) {
	c, err := p.parseBin(0)
	if err != nil {
		return nil, err
	}
	if p.isOp("?") {
		p.next()
		a, err := p.parseTern()
		if err != nil {
			return nil, err
		}
		if err := p.expect(":"); err != nil {
			return nil, err
		}
		b, err := p.parseTern()
		if err != nil {
			return nil, err
		}
		return &Expr{Op: "ite", Args: []*Expr{c, a, b}}, nil
	}
	return c, nil
}

var binLevels = [][]string{{"||"}, {"&&"}, {"==", "!=", "<", "<=", ">", ">="}, {"+", "-"}, {"*", "/", "%"}}

func (p *parser) parseBin(level int) (*Expr, error) {
	if level == len(binLevels) {
		return p.parseUnary()
	}
	l, err := p.parseBin(level + 1)
	if err != nil {
		return nil, err
	}
	for {
		t := p.peek()
		found := false
		if t.kind == "op" {
			for _, o := range binLevels[level] {
				if t.text == o {
					found = true
				}
			}
		}
		if !found {
			return l, nil
		}
		p.next()
		var r *Expr
		if nt := p.peek(); nt.kind == "id" && (nt.text == "forall" || nt.text == "exists") {
			r, err = p.parseTop()
		} else {
			r, err = p.parseBin(level + 1)
		}
		if err != nil {
			return nil, err
		}
		l = &Expr{Op: "binary", Name: t.text, Args: []*Expr{l, r}}
	}
}

func (p *parser) parseUnary() (*Expr, error) {
	if p.isOp("!") || p.isOp("-") {
		op := p.next().text
		e, err := p.parseUnary()
		if err != nil {
			return nil, err
		}
		return &Expr{Op: "unary", Name: op, Args: []*Expr{e}}, nil
	}
	return p.parsePostfix()
}

func (p *parser) parsePostfix() (*Expr, error) {
	e, err := p.parsePrimary()
	if err != nil {
		return nil, err
	}
	for {
		switch {
		case p.isOp("."):
			p.next()
			t := p.next()
			if t.kind != "id" {
				return nil, fmt.Errorf("field name expected after '.'")
			}
			e = &Expr{Op: "field", Name: t.text, Args: []*Expr{e}}
		case p.isOp("["):
			p.next()
			var lo, hi *Expr
			if !p.isOp(":") {
				lo, err = p.parseTop()
				if err != nil {
					return nil, err
				}
			}
			if p.isOp(":") {
				p.next()
				if !p.isOp("]") {
					hi, err = p.parseTop()
					if err != nil {
						return nil, err
					}
				}
				if err := p.expect("]"); err != nil {
					return nil, err
				}
				e = &Expr{Op: "slice", Args: []*Expr{e, lo, hi}}
			} else {
				if err := p.expect("]"); err != nil {
					return nil, err
				}
				e = &Expr{Op: "index", Args: []*Expr{e, lo}}
			}
		default:
			return e, nil
		}
	}
}

func (p *parser) parsePrimary() (*Expr, error) {
	t := p.next()
	switch t.kind {
	case "num":
		n := new(big.Int)
		if _, ok := n.SetString(t.text, 0); !ok {
			return nil, fmt.Errorf("bad number %q", t.text)
		}
		return &Expr{Op: "num", Num: n}, nil
	case "str":
		return &Expr{Op: "str", Str: t.text}, nil
	case "id":
		if t.text == "nil" {
			return &Expr{Op: "nil"}, nil
		}
		if t.text == "true" || t.text == "false" {
			return &Expr{Op: "bool", Name: t.text}, nil
		}
		if p.isOp("(") {
			p.next()
			var args []*Expr
			for !p.isOp(")") {
				a, err := p.parseTop()
				if err != nil {
					return nil, err
				}
				args = append(args, a)
				if p.isOp(",") {
					p.next()
				}
			}
			p.next()
			if t.text == "old" {
				if len(args) != 1 {
					return nil, fmt.Errorf("old takes one argument")
				}
				return &Expr{Op: "old", Args: args}, nil
			}
			return &Expr{Op: "call", Name: t.text, Args: args}, nil
		}
		if p.isOp("{") && len(t.text) > 0 && unicode.IsUpper(rune(t.text[0])) {
			p.next()
			e := &Expr{Op: "struct", Name: t.text}
			for !p.isOp("}") {
				fn := p.next()
				if fn.kind != "id" {
					return nil, fmt.Errorf("struct literal: field name expected")
				}
				if err := p.expect(":"); err != nil {
					return nil, err
				}
				v, err := p.parseTop()
				if err != nil {
					return nil, err
				}
				e.Fields = append(e.Fields, FieldInit{fn.text, v})
				if p.isOp(",") {
					p.next()
				}
			}
			p.next()
			return e, nil
		}
		return &Expr{Op: "ident", Name: t.text}, nil
	case "op":
		switch t.text {
		case "(":
			e, err := p.parseTop()
			if err != nil {
				return nil, err
			}
			if err := p.expect(")"); err != nil {
				return nil, err
			}
			return e, nil
		case "[":
			e := &Expr{Op: "list"}
			for !p.isOp("]") {
				a, err := p.parseTop()
				if err != nil {
					return nil, err
				}
				e.Args = append(e.Args, a)
				if p.isOp(",") {
					p.next()
				}
			}
			p.next()
			return e, nil
		}
	}
	return nil, fmt.Errorf("unexpected token %q", t.text)
}
