package main

// Property checks: which functions and clauses decide a property, evidence, known findings, VIOLATION lines.

import (
	"golang.org/x/tools/go/ssa/ssautil"
	"encoding/json"
	"flag"
	"fmt"
	"os"
	"os/exec"
	"path/filepath"
	"sort"
	"strconv"
	"strings"
	"time"

	"golang.org/x/tools/go/ssa"
)

const verifDir = "/verif"

// outDir is where evidence and replay files go (the must-fail corpus redirects it to a scratch directory).
func outDir() string {
	if d := os.Getenv("VERIF_OUT"); d != "" {
		return d
	}
	return verifDir
}

// relevant reports whether a clause takes part in the check of property prop:
// untagged clauses are part of every proof that reaches them.
func relevant(cl *Clause, prop string) bool {
	if prop == "" {
		return true
	}
	if len(cl.Props) == 0 {
		if len(cl.OnlyUnder) > 0 {
			for _, p := range cl.OnlyUnder {
				if p == prop {
					return true
				}
			}
			return false
		}
		return !(cl.SkipSweep && (prop == "C18" || prop == "C20"))
	}
	for _, p := range cl.Props {
		if p == prop {
			return true
		}
	}
	return false
}

func contractMentions(c *Contract, prop string) bool {
	for _, p := range c.Serves {
		if p == prop {
			return true
		}
	}
	for _, cl := range c.Clauses {
		for _, p := range cl.Props {
			if p == prop {
				return true
			}
		}
	}
	return false
}

// contractedCallees lists contracted repo functions called (statically) from fn, looking through
// uncontracted repo helpers.
func contractedCallees(w *World, fn *ssa.Function, seen map[*ssa.Function]bool, out map[string]bool) {
	if seen[fn] {
		return
	}
	seen[fn] = true
	for _, b := range fn.Blocks {
		for _, in := range b.Instrs {
			c, ok := in.(ssa.CallInstruction)
			if !ok {
				continue
			}
			callee := c.Common().StaticCallee()
			if callee == nil || !isRepoFn(callee) || callee.Blocks == nil {
				continue
			}
			k := fnName(callee)
			if _, ok := w.contracts[k]; ok {
				out[k] = true
			} else {
				contractedCallees(w, callee, seen, out)
			}
		}
		for _, in := range b.Instrs {
			if mc, ok := in.(*ssa.MakeClosure); ok {
				contractedCallees(w, mc.Fn.(*ssa.Function), seen, out)
			}
		}
	}
}

// cone returns the functions whose contracts must be verified for prop.
func cone(w *World, prop string) []string {
	set := map[string]bool{}
	var work []string
	hasStep := false
	for _, cl := range stepClauses {
		if relevant(cl, prop) && len(cl.Props) > 0 {
			hasStep = true
		}
	}
	for k, c := range w.contracts {
		if contractMentions(c, prop) || prop == "C20" || prop == "C18" || (hasStep && strings.HasPrefix(k, "keeper.msgServer.")) {
			set[k] = true
			work = append(work, k)
		}
	}
	for len(work) > 0 {
		k := work[0]
		work = work[1:]
		fn := w.fns[k]
		if fn == nil || w.contracts[k].Trusted {
			continue
		}
		cs := map[string]bool{}
		contractedCallees(w, fn, map[*ssa.Function]bool{}, cs)
		for c := range cs {
			if !set[c] {
				set[c] = true
				work = append(work, c)
			}
		}
	}
	var out []string
	for k := range set {
		out = append(out, k)
	}
	sort.Strings(out)
	return out
}

type knownFinding struct {
	Prop, Obligation, Desc string
	Fixed                  bool
}

func loadKnownFindings() []knownFinding {
	data, err := os.ReadFile(filepath.Join(verifDir, "known_findings.txt"))
	if err != nil {
		return nil
	}
	var out []knownFinding
	for _, l := range strings.Split(string(data), "\n") {
		l = strings.TrimSpace(l)
		if l == "" || strings.HasPrefix(l, "#") {
			continue
		}
		kf := knownFinding{}
		if strings.HasPrefix(l, "fixed:") {
			kf.Fixed = true
			l = strings.TrimSpace(strings.TrimPrefix(l, "fixed:"))
		}
		for _, f := range strings.Fields(l) {
			if strings.HasPrefix(f, "property=") {
				kf.Prop = strings.TrimPrefix(f, "property=")
			} else if strings.HasPrefix(f, "obligation=") {
				kf.Obligation = strings.TrimPrefix(f, "obligation=")
			}
		}
		if i := strings.Index(l, " -- "); i >= 0 {
			kf.Desc = l[i+4:]
		}
		out = append(out, kf)
	}
	return out
}

type oblSummary struct {
	Name      string   `json:"obligation"`
	Kind      string   `json:"kind"`
	Instances int      `json:"path_instances"`
	Status    string   `json:"status"`
	Solvers   []string `json:"solvers"`
	Seconds   float64  `json:"solver_seconds"`
}

func repoStatus() string {
	out, _ := exec.Command("git", "-C", repoDir(), "status", "--porcelain").Output()
	return string(out)
}

func cmdCheck(args []string) int {
	fs := flag.NewFlagSet("check", flag.ExitOnError)
	fs.Parse(args)
	if fs.NArg() < 1 {
		fmt.Println("usage: govc check <property> [quick|thorough]")
		return 2
	}
	prop := fs.Arg(0)
	tier := "quick"
	if fs.NArg() > 1 {
		tier = fs.Arg(1)
	}
	if t := os.Getenv("VERIF_TIER"); t != "" && fs.NArg() < 2 {
		tier = t
	}
	seed := 0
	if s := os.Getenv("VERIF_SEED"); s != "" {
		seed, _ = strconv.Atoi(s)
	}
	solverSeed = seed
	timeout := 20000
	if tier == "thorough" {
		timeout = 60000
		crossCheck = true
	}
	t0 := time.Now()
	statusBefore := repoStatus()
	w, err := LoadWorld()
	if err != nil {
		fmt.Println("load failed:", err)
		return reportLoadFailure(prop, tier, seed, err)
	}
	res := runProperty(w, prop, tier, timeout)
	res.WallS = time.Since(t0).Seconds()
	res.Seed = seed
	res.Tier = tier
	if repoStatus() != statusBefore {
		fmt.Println("warning: /repo working tree status changed during the check")
	}
	return res.report()
}

type propResult struct {
	Prop, Tier string
	Seed       int
	WallS      float64
	Functions  []string
	Trusted    []string
	Obls       []*Obligation
	L0         map[string]int
	Notes      map[string][]string
	Unmodelled map[string]int
	LoadS      float64
	Extra      map[string]interface{}
	World      *World
	Exec       *Exec
}

func runProperty(w *World, prop, tier string, timeout int) *propResult {
	res := &propResult{Prop: prop, L0: map[string]int{}, Notes: map[string][]string{}, Unmodelled: map[string]int{}, LoadS: w.loadSecs, Extra: map[string]interface{}{}}
	ex := NewExec(w.prog, w.pkgs, w.contracts)
	ex.prop = prop
	ex.runInit()
	for _, k := range cone(w, prop) {
		c := w.contracts[k]
		fn := w.fns[k]
		if fn == nil {
			ex.obls = append(ex.obls, &Obligation{Name: k + "#binding", Kind: "binding", Props: propSet([]string{prop}), Fn: k,
				Goal: TFalse, Note: "contract names a function that does not exist", Res: SolverResult{Status: "sat", Solver: "syntactic"}})
			continue
		}
		if c.Trusted {
			res.Trusted = append(res.Trusted, k)
			continue
		}
		res.Functions = append(res.Functions, k)
		ex.VerifyFunction(fn, c)
	}
	for _, l := range w.lemmas {
		for _, p := range l.Props {
			if p == prop {
				ex.VerifyLemma(l)
			}
		}
	}
	specialObligations(w, ex, prop)
	// keep the obligations that belong to this property
	var mine []*Obligation
	for _, o := range ex.obls {
		if oblRelevant(o, prop) {
			mine = append(mine, o)
		}
	}
	discharge(mine, timeout)
	res.Obls = mine
	res.World, res.Exec = w, ex
	for k, v := range ex.l0used {
		res.L0[k] = v
	}
	for k, v := range ex.fnNotes {
		res.Notes[k] = v
	}
	for k, v := range ex.unmodelled {
		res.Unmodelled[k] = v
	}
	for k, v := range ex.extra {
		res.Extra[k] = v
	}
	return res
}

func oblRelevant(o *Obligation, prop string) bool {
	switch o.Kind {
	case "nopanic", "requires":
		return o.Props[prop]
	case "binding", "limit", "vacuity", "model", "cover":
		return true
	}
	if len(o.Props) == 0 {
		return true
	}
	return o.Props[prop]
}

func (r *propResult) report() int {
	byName := map[string][]*Obligation{}
	var names []string
	for _, o := range r.Obls {
		if _, ok := byName[o.Name]; !ok {
			names = append(names, o.Name)
		}
		byName[o.Name] = append(byName[o.Name], o)
	}
	known := loadKnownFindings()
	var sums []oblSummary
	nObl, nDis := 0, 0
	solverSecs := 0.0
	backends := map[string]int{}
	violations := 0
	exit := 0
	knownHit := 0
	for _, n := range names {
		s := oblSummary{Name: n, Kind: byName[n][0].Kind, Instances: len(byName[n]), Status: "discharged"}
		var bad *Obligation
		solv := map[string]bool{}
		for _, o := range byName[n] {
			s.Seconds += o.Res.Seconds
			solv[o.Res.Solver] = true
			backends[o.Res.Solver]++
			if o.Res.Status != "unsat" && bad == nil {
				bad = o
			}
		}
		for k := range solv {
			s.Solvers = append(s.Solvers, k)
		}
		sort.Strings(s.Solvers)
		solverSecs += s.Seconds
		nObl++
		if bad == nil {
			nDis++
		} else {
			s.Status = "FAILED:" + bad.Res.Status
			isKnown := false
			for _, kf := range known {
				if !kf.Fixed && kf.Prop == r.Prop && kf.Obligation == n {
					isKnown = true
					fmt.Printf("KNOWN-FINDING: property=%s %s: %s\n", r.Prop, n, kf.Desc)
					knownHit++
					s.Status = "known-finding"
				}
			}
			if !isKnown {
				violations++
				exit = 1
				// follow the failure up on the real code where the function is within the replay harness's reach
				tried := 0
				for _, o := range byName[n] {
					if o.Res.Status == "unsat" || tried >= 3 {
						continue
					}
					tried++
					tryReplay(r.World, r.Exec, o)
					if o.replayed {
						bad = o
						break
					}
					if bad.replayNote == "" {
						bad.replayNote = o.replayNote
						bad.replayData = o.replayData
					}
				}
				path := writeReplay(r.Prop, n, bad)
				suffix := ""
				if !bad.replayed {
					suffix = " no-failing-input-found"
				}
				fmt.Printf("VIOLATION property=%s replay=%s%s\n", r.Prop, path, suffix)
				fmt.Printf("  obligation %s failed (%s): %s\n", n, bad.Res.Status, firstN(bad.Note, 200))
				if bad.replayed {
					in, _ := json.Marshal(bad.replayData["inputs"])
					fmt.Printf("  replayed on the real code: %s\n  failing input of %v: %s\n", firstN(bad.replayNote, 240), bad.replayData["function"], firstN(string(in), 400))
				}
			}
		}
		sums = append(sums, s)
	}
	if nObl == 0 {
		fmt.Printf("VIOLATION property=%s replay=%s no-failing-input-found\n", r.Prop, writeReplay(r.Prop, "no-obligations", &Obligation{Name: "no-obligations", Note: "the check generated zero obligations (vacuous)"}))
		exit = 1
		violations++
	}
	// evidence
	samples := []interface{}{}
	for i, s := range sums {
		if i < 5 || s.Status != "discharged" {
			o := byName[s.Name][0]
			samples = append(samples, map[string]interface{}{"obligation": s.Name, "kind": s.Kind, "clause": firstN(o.Note, 300), "path_instances": s.Instances, "status": s.Status, "solvers": s.Solvers})
		}
		if len(samples) > 12 {
			break
		}
	}
	var assumptions []string
	var l0 []string
	for k := range r.L0 {
		l0 = append(l0, k)
	}
	sort.Strings(l0)
	if r.World != nil {
		for _, d := range r.World.detached {
			assumptions = append(assumptions, "contract detached (signature of an unexported helper changed): "+d)
			fmt.Println("NOTE: " + d)
		}
	}
	assumptions = append(assumptions, "L0 library/dependency models used (assumed contracts, not proved): "+strings.Join(l0, ", "))
	sort.Strings(r.Trusted)
	if len(r.Trusted) > 0 {
		assumptions = append(assumptions, "contracts marked trusted (assumed, body not verified): "+strings.Join(r.Trusted, ", "))
	}
	assumptions = append(assumptions,
		"Cosmos SDK executes a message whose handler returns a non-nil error (or panics) on a cache that is discarded: no store write, event or dependency effect survives; msg.From is the verified signer",
		"KV store: Get returns nil iff the key is absent; a prefix store over P reads/writes raw key P++k; the ghost cardinal of a prefix range changes by +1/-1/0 on Set/Delete",
		"codec: unmarshal(marshal(v)) = v per proto type, marshal never returns nil; a nil math.Int is encoded as 0",
		"machine arithmetic is modelled exactly (bit-vectors of Go's widths, wrap-around); math.Int/*big.Int as 264-bit two's complement (|v| < 2^256)",
		"byte strings and slices longer than 2^40 bytes are not considered; append results do not alias their base slice (base not reused)",
		"solver answers (z3 5.1.0, cvc5 1.0.3, z3 4.8.12) and the go/ssa translation of the source are trusted")
	var noteKeys []string
	for k := range r.Notes {
		noteKeys = append(noteKeys, k)
	}
	sort.Strings(noteKeys)
	for _, k := range noteKeys {
		for _, n := range r.Notes[k] {
			assumptions = append(assumptions, k+": "+n)
		}
	}
	cov := map[string]interface{}{
		"obligations":              nObl,
		"discharged":               nDis + knownHit,
		"checker_cmd":              fmt.Sprintf("./bin/check %s %s", r.Prop, r.Tier),
		"trusted_base":             []string{"go/packages+go/types+go/ssa (x/tools v0.29.0)", "govc VC generator and memory model (/verif/tool)", "z3-new 5.1.0", "cvc5 1.0.3", "z3 4.8.12", "L0 models in tool/models.go and prelude axioms in tool/spec.go", "Cosmos SDK runTx rollback"},
		"samples":                  samples,
		"functions_under_contract": r.Functions,
		"obligation_instances":     len(r.Obls),
		"known_findings_matched":   knownHit,
		"backends":                 backends,
		"solver_seconds":           solverSecs,
		"load_ssa_seconds":         r.LoadS,
		"obligation_list":          sums,
	}
	for k, v := range r.Extra {
		cov[k] = v
	}
	if crossCheck {
		cov["cross_checked_queries"] = crossN
		cov["cross_check_second_solver_agrees"] = crossAgree
		cov["cross_check_second_solver_undecided"] = crossOpen
	}
	ev := map[string]interface{}{
		"property_id": r.Prop, "tier": r.Tier, "seed": r.Seed, "level": "proof",
		"coverage": cov, "assumptions": assumptions, "wall_s": r.WallS, "violations": violations,
	}
	os.MkdirAll(filepath.Join(outDir(), "evidence"), 0o755)
	data, _ := json.MarshalIndent(ev, "", " ")
	if err := os.WriteFile(filepath.Join(outDir(), "evidence", r.Prop+".json"), data, 0o644); err != nil {
		fmt.Println("cannot write evidence:", err)
		return 2
	}
	fmt.Printf("%s %s: %d obligations (%d path instances), %d discharged, %d known findings, %d violations, %.1fs\n", r.Prop, r.Tier, nObl, len(r.Obls), nDis, knownHit, violations, r.WallS)
	return exit
}

func writeReplay(prop, name string, o *Obligation) string {
	dir := filepath.Join(outDir(), "replays", prop)
	os.MkdirAll(dir, 0o755)
	path := filepath.Join(dir, sanitize(name)+".json")
	rec := map[string]interface{}{
		"property": prop, "obligation": name, "kind": o.Kind, "function": o.Fn, "clause": o.Note,
		"path": o.Path, "solver_status": o.Res.Status, "solver": o.Res.Solver, "solver_output": o.Res.Raw, "model": o.Res.Model,
		"replayed": o.replayed, "replay_result": o.replayNote,
	}
	if o.replayData != nil {
		rec["replay"] = o.replayData
	}
	if o.Goal != nil {
		rec["goal"] = o.Goal.String()
	}
	data, _ := json.MarshalIndent(rec, "", " ")
	os.WriteFile(path, data, 0o644)
	return path
}

func reportLoadFailure(prop, tier string, seed int, err error) int {
	o := &Obligation{Name: "load", Kind: "binding", Note: "cannot load /repo or its contract files: " + err.Error()}
	path := writeReplay(prop, "load", o)
	fmt.Printf("VIOLATION property=%s replay=%s no-failing-input-found\n", prop, path)
	ev := map[string]interface{}{
		"property_id": prop, "tier": tier, "seed": seed, "level": "proof",
		"coverage":    map[string]interface{}{"obligations": 1, "discharged": 0, "checker_cmd": "./bin/check " + prop + " " + tier, "trusted_base": []string{}, "samples": []interface{}{err.Error()}, "evaluations": 1, "distinct_nontrivial": 2},
		"assumptions": []string{}, "wall_s": 0.0, "violations": 1,
	}
	data, _ := json.MarshalIndent(ev, "", " ")
	os.MkdirAll(filepath.Join(outDir(), "evidence"), 0o755)
	os.WriteFile(filepath.Join(outDir(), "evidence", prop+".json"), data, 0o644)
	return 1
}

// specialObligations adds property-specific obligations that are not clause-shaped (filled in per property).
func specialObligations(w *World, ex *Exec, prop string) {
	// the lemmas the prelude states as axioms about cat (injectivity) are re-proved from cat's definition on every run
	if files, _ := filepath.Glob(filepath.Join(verifDir, "spec", "lemmas", "*.smt2")); len(files) > 0 {
		sort.Strings(files)
		for _, f := range files {
			data, err := os.ReadFile(f)
			if err != nil {
				continue
			}
			text := string(data)
			if !strings.Contains(text, "(check-sat)") {
				text += "\n(check-sat)\n"
			}
			ex.obls = append(ex.obls, &Obligation{Name: "prelude." + strings.TrimSuffix(filepath.Base(f), ".smt2"), Kind: "model", Props: propSet([]string{prop}),
				Goal: TFalse, rawText: text, Note: "proof step of a prelude lemma (spec/lemmas/README.md)"})
		}
	}
	if prop == "C18" {
		c18Obligations(w, ex)
	}
	if prop == "C17" {
		wiringObligations(w, ex)
		// every part of the stored state must be covered by a (proved) postcondition of ExportGenesis and of
		// InitGenesis; a part that is not has no genesis field, so an export -> import loses it
		for _, fnKey := range []string{"cctp.ExportGenesis", "cctp.InitGenesis"} {
			c := w.contracts[fnKey]
			text := ""
			if c != nil {
				for _, cl := range c.byKind("ensures") {
					text += cl.Text + "\n"
				}
			}
			parts := map[string][]string{
				"owner": {"st.owner."}, "pendingOwner": {"st.pendingOwner."}, "attesterManager": {"st.attesterManager."}, "pauser": {"st.pauser."},
				"tokenController": {"st.tokenController."}, "bmPaused": {"st.bmPaused."}, "srPaused": {"st.srPaused."}, "maxBody": {"st.maxBody."},
				"nextNonce": {"st.nextNonce."}, "threshold": {"st.threshold."}, "attesters": {"stAttesters()", "st.attesters."},
				"burnLimits": {"stLimits()", "st.burnLimits."}, "tokenPairs": {"stPairs()", "st.tokenPairs."}, "usedNonces": {"stNonces()", "st.usedNonces."},
				"messengers": {"stMessengers()", "st.messengers."},
			}
			var names []string
			for n := range parts {
				names = append(names, n)
			}
			sort.Strings(names)
			for _, n := range names {
				covered := false
				for _, pat := range parts[n] {
					if strings.Contains(text, pat) {
						covered = true
					}
				}
				o := &Obligation{Name: fmt.Sprintf("lemma.C17.roundtrip[%s]@%s", n, fnKey), Kind: "lemma", Props: propSet([]string{"C17"}), Fn: fnKey, Goal: Bool(covered),
					Note: "state part " + n + " is covered by a proved postcondition of " + fnKey}
				if covered {
					o.Res = SolverResult{Status: "unsat", Solver: "syntactic"}
				} else {
					o.Res = SolverResult{Status: "sat", Solver: "syntactic"}
					o.Note = "state part " + n + " has no genesis field: " + fnKey + " has no postcondition about it, so export followed by import loses it"
				}
				ex.obls = append(ex.obls, o)
			}
		}
	}
	// every MsgServer method must be under contract: a new transaction type cannot slip past the frame lemmas
	switch prop {
	case "C02", "C04", "C05", "C07", "C11", "C12", "C13", "C15":
		for _, m := range msgServerMethods(w) {
			k := "keeper.msgServer." + m
			if _, ok := w.contracts[k]; !ok {
				ex.obls = append(ex.obls, &Obligation{Name: k + "#uncontracted-handler", Kind: "binding", Props: propSet([]string{prop}), Fn: k,
					Goal: TFalse, Note: "MsgServer method without a contract: its effect on the property's state is unchecked", Res: SolverResult{Status: "sat", Solver: "syntactic"}})
			}
		}
	}
}

func msgServerMethods(w *World) []string {
	pkg := w.pkgs[repoPrefix+"/types"]
	if pkg == nil {
		return nil
	}
	t := pkg.Type("MsgServer")
	if t == nil {
		return nil
	}
	ms := w.prog.MethodSets.MethodSet(t.Type())
	var out []string
	for i := 0; i < ms.Len(); i++ {
		out = append(out, ms.At(i).Obj().Name())
	}
	sort.Strings(out)
	return out
}

// wiringObligations (C17): the module's genesis entry points in module.go must go through the functions under
// contract - ValidateGenesis returns what GenesisState.Validate returns for the decoded state, InitGenesis hands the
// decoded state and the module's keeper to cctp.InitGenesis, ExportGenesis encodes what cctp.ExportGenesis returns.
// Decided on the SSA (no solver): JSON decoding itself is outside.
func wiringObligations(w *World, ex *Exec) {
	add := func(name string, ok bool, note string) {
		o := &Obligation{Name: name, Kind: "pure", Props: propSet([]string{"C17"}), Goal: Bool(ok), Note: note}
		if ok {
			o.Res = SolverResult{Status: "unsat", Solver: "syntactic"}
		} else {
			o.Res = SolverResult{Status: "sat", Solver: "syntactic"}
		}
		ex.obls = append(ex.obls, o)
	}
	find := func(key string) *ssa.Function {
		for fn := range ssautil.AllFunctions(w.prog) {
			if isRepoFn(fn) && fn.Blocks != nil && fn.Synthetic == "" && fnName(fn) == key {
				return fn
			}
		}
		return nil
	}
	callsTo := func(fn *ssa.Function, callee string) []*ssa.Call {
		var out []*ssa.Call
		for _, b := range fn.Blocks {
			for _, in := range b.Instrs {
				if c, ok := in.(*ssa.Call); ok {
					if sc := c.Call.StaticCallee(); sc != nil && fnName(sc) == callee {
						out = append(out, c)
					}
				}
			}
		}
		return out
	}
	// ValidateGenesis: every return is either an error path before validation (a non-nil error value built there)
	// or returns the result of GenesisState.Validate on the decoded state
	if fn := find("cctp.AppModuleBasic.ValidateGenesis"); fn == nil {
		add("cctp.AppModuleBasic.ValidateGenesis#wiring@validate", false, "module.go has no ValidateGenesis")
	} else {
		calls := callsTo(fn, "types.GenesisState.Validate")
		ok := len(calls) == 1
		badNil := false
		returnsCall := false
		// a literal nil may be returned only where the validation result is known to be nil
		knownNil := func(b *ssa.BasicBlock) bool {
			for _, blk := range fn.Blocks {
				if len(blk.Instrs) == 0 {
					continue
				}
				iff, isIf := blk.Instrs[len(blk.Instrs)-1].(*ssa.If)
				if !isIf {
					continue
				}
				bo, isBin := iff.Cond.(*ssa.BinOp)
				if !isBin || bo.X != ssa.Value(calls[0]) {
					continue
				}
				if c, isC := bo.Y.(*ssa.Const); !isC || !c.IsNil() {
					continue
				}
				switch bo.Op.String() {
				case "!=":
					if blk.Succs[1].Dominates(b) && len(blk.Succs[1].Preds) == 1 {
						return true
					}
				case "==":
					if blk.Succs[0].Dominates(b) && len(blk.Succs[0].Preds) == 1 {
						return true
					}
				}
			}
			return false
		}
		for _, b := range fn.Blocks {
			for _, in := range b.Instrs {
				if r, isRet := in.(*ssa.Return); isRet && len(r.Results) == 1 {
					if c, isConst := r.Results[0].(*ssa.Const); isConst && c.IsNil() {
						if !ok || !knownNil(b) {
							badNil = true
						}
						continue
					}
					if ok && r.Results[0] == ssa.Value(calls[0]) {
						returnsCall = true
					}
				}
			}
		}
		add("cctp.AppModuleBasic.ValidateGenesis#wiring@validate", ok && returnsCall && !badNil,
			"ValidateGenesis must return the result of GenesisState.Validate on the decoded genesis, and nil only where that result is nil")
	}
	if fn := find("cctp.AppModule.InitGenesis"); fn == nil {
		add("cctp.AppModule.InitGenesis#wiring@init", false, "module.go has no InitGenesis")
	} else {
		calls := callsTo(fn, "cctp.InitGenesis")
		ok := len(calls) == 1
		if ok {
			// the keeper handed over is the module's own (a field load from the receiver)
			_, fromField := calls[0].Call.Args[1].(*ssa.UnOp)
			if fa, isF := calls[0].Call.Args[1].(*ssa.Field); isF {
				_ = fa
				fromField = true
			}
			ok = fromField
		}
		add("cctp.AppModule.InitGenesis#wiring@init", ok, "AppModule.InitGenesis must hand the decoded genesis and the module's keeper to cctp.InitGenesis, once")
	}
	if fn := find("cctp.AppModule.ExportGenesis"); fn == nil {
		add("cctp.AppModule.ExportGenesis#wiring@export", false, "module.go has no ExportGenesis")
	} else {
		calls := callsTo(fn, "cctp.ExportGenesis")
		ok := len(calls) == 1
		if ok {
			// its result is what gets encoded: it reaches an interface conversion that is an argument of the JSON encoder
			used := false
			for _, ref := range *calls[0].Referrers() {
				if mi, isMI := ref.(*ssa.MakeInterface); isMI {
					for _, r2 := range *mi.Referrers() {
						if c2, isCall := r2.(ssa.CallInstruction); isCall && strings.Contains(calleeName(c2.Common()), "MarshalJSON") {
							used = true
						}
					}
				}
			}
			ok = used
		}
		add("cctp.AppModule.ExportGenesis#wiring@export", ok, "AppModule.ExportGenesis must encode exactly what cctp.ExportGenesis returns")
	}
}
