package main

// C18: purity / frame obligations over every function body in scope. They are decided syntactically on the SSA
// (no solver): no goroutines, channels or map iteration; no write to package-level memory outside init; no call
// to a library function outside the catalogue of deterministic, state-free functions; the keeper holds no cache.

import (
	"fmt"
	"go/types"
	"sort"
	"strings"

	"golang.org/x/tools/go/ssa"
	"golang.org/x/tools/go/ssa/ssautil"
)

// deterministic, state-free external callees that are not modelled but harmless for C18
var c18Allowed = []string{
	"fmt.", "errors.", "strings.", "bytes.", "encoding/hex.", "encoding/binary.", "strconv.", "math/big.", "cosmossdk.io/math.",
	"cosmossdk.io/errors.", "google.golang.org/grpc/status.", "google.golang.org/grpc/codes.", "sort.",
	"github.com/cosmos/gogoproto/proto.", "github.com/cosmos/cosmos-sdk/types/errors.",
	"(*math/big.Int).", "(cosmossdk.io/math.Int).", "(*cosmossdk.io/errors.Error).", "(github.com/cosmos/cosmos-sdk/types.Coin).",
	"(github.com/cosmos/cosmos-sdk/types.Coins).", "(github.com/cosmos/cosmos-sdk/types.AccAddress).",
	"github.com/cosmos/cosmos-sdk/types.ValidateDenom", "(encoding/binary.bigEndian).", "(encoding/binary.littleEndian).",
	// further pure, state-free standard and crypto library functions a refactoring may reach for
	"math.", "math/bits.", "unicode.", "unicode/utf8.", "slices.", "cmp.", "encoding/base64.", "crypto/sha256.", "crypto/sha512.",
	"golang.org/x/crypto/sha3.", "github.com/ethereum/go-ethereum/crypto.", "github.com/ethereum/go-ethereum/common.",
	"(github.com/ethereum/go-ethereum/common.Address).", "(github.com/ethereum/go-ethereum/common.Hash).",
	"github.com/cosmos/cosmos-sdk/types/bech32.", "github.com/cosmos/btcutil/base58.",
}

var c18Forbidden = []string{"time.", "math/rand", "crypto/rand", "os.", "runtime.", "sync.", "sync/atomic.", "reflect.", "unsafe.", "net.", "io/ioutil.", "syscall."}

func c18InScope(prog *ssa.Program, fn *ssa.Function) bool {
	if !isRepoFn(fn) || fn.Blocks == nil {
		return false
	}
	if fn.Synthetic != "" && !strings.HasPrefix(fn.Name(), "init") {
		return false
	}
	pos := prog.Fset.Position(fn.Pos())
	f := pos.Filename
	if f == "" && fn.Parent() != nil {
		f = prog.Fset.Position(fn.Parent().Pos()).Filename
	}
	switch {
	case strings.HasSuffix(f, ".pb.go"), strings.HasSuffix(f, ".pb.gw.go"), strings.HasSuffix(f, "_test.go"):
		return false
	case strings.Contains(f, "/client/cli/") && !strings.HasSuffix(f, "util.go"):
		return false // cobra command constructors: client side, outside consensus
	case strings.HasSuffix(f, "/module.go"), strings.HasSuffix(f, "/codec.go"), strings.HasSuffix(f, "/errors.go"), strings.HasSuffix(f, "verif_contracts.go"):
		return false // framework wiring executed at start-up (listed in the evidence as out of scope)
	}
	return f != ""
}

// rootedInGlobal: does the address / slice value v point into package-level memory?
func rootedInGlobal(v ssa.Value, depth int) (bool, string) {
	if depth > 12 {
		return false, ""
	}
	switch x := v.(type) {
	case *ssa.Global:
		return true, x.Name()
	case *ssa.FieldAddr:
		return rootedInGlobal(x.X, depth+1)
	case *ssa.IndexAddr:
		return rootedInGlobal(x.X, depth+1)
	case *ssa.Slice:
		return rootedInGlobal(x.X, depth+1)
	case *ssa.ChangeType:
		return rootedInGlobal(x.X, depth+1)
	case *ssa.Convert:
		return rootedInGlobal(x.X, depth+1)
	case *ssa.UnOp:
		// load of a package-level slice/pointer variable: the loaded value aliases package-level memory
		if g, ok := x.X.(*ssa.Global); ok {
			switch x.Type().Underlying().(type) {
			case *types.Slice, *types.Pointer, *types.Map:
				return true, g.Name()
			}
		}
	case *ssa.Phi:
		for _, e := range x.Edges {
			if ok, n := rootedInGlobal(e, depth+1); ok {
				return true, n
			}
		}
	}
	return false, ""
}

func c18Obligations(w *World, ex *Exec) {
	add := func(name string, ok bool, note string) {
		o := &Obligation{Name: name, Kind: "pure", Props: propSet([]string{"C18"}), Goal: Bool(ok), Note: note}
		if ok {
			o.Res = SolverResult{Status: "unsat", Solver: "syntactic"}
		} else {
			o.Res = SolverResult{Status: "sat", Solver: "syntactic"}
		}
		ex.obls = append(ex.obls, o)
	}
	var fns []*ssa.Function
	for fn := range ssautil.AllFunctions(w.prog) {
		if c18InScope(w.prog, fn) {
			fns = append(fns, fn)
		}
	}
	sort.Slice(fns, func(i, j int) bool { return fns[i].String() < fns[j].String() })
	nInstr := 0
	for _, fn := range fns {
		name := fnName(fn)
		isInit := strings.HasPrefix(fn.Name(), "init")
		var constructs, writes, callees []string
		for _, b := range fn.Blocks {
			for _, in := range b.Instrs {
				nInstr++
				pos := posOf(w.prog, in.Pos())
				switch x := in.(type) {
				case *ssa.Go:
					constructs = append(constructs, "go statement at "+pos)
				case *ssa.Select:
					constructs = append(constructs, "select at "+pos)
				case *ssa.Send:
					constructs = append(constructs, "channel send at "+pos)
				case *ssa.MakeChan:
					constructs = append(constructs, "make(chan) at "+pos)
				case *ssa.Range:
					if _, ok := x.X.Type().Underlying().(*types.Map); ok {
						constructs = append(constructs, "range over a map at "+pos)
					}
				case *ssa.UnOp:
					if x.Op.String() == "<-" {
						constructs = append(constructs, "channel receive at "+pos)
					}
				case *ssa.Store:
					if ok, g := rootedInGlobal(x.Addr, 0); ok && !isInit {
						writes = append(writes, fmt.Sprintf("store into package-level %s at %s", g, pos))
					}
				case *ssa.MapUpdate:
					if ok, g := rootedInGlobal(x.Map, 0); ok && !isInit {
						writes = append(writes, fmt.Sprintf("update of package-level map %s at %s", g, pos))
					}
				}
				if c, ok := in.(ssa.CallInstruction); ok {
					cc := c.Common()
					if b, ok := cc.Value.(*ssa.Builtin); ok && !isInit {
						switch b.Name() {
						case "append", "copy":
							if ok, g := rootedInGlobal(cc.Args[0], 0); ok {
								writes = append(writes, fmt.Sprintf("%s into memory of package-level %s at %s", b.Name(), g, pos))
							}
						}
					}
					if callee := cc.StaticCallee(); callee != nil && !isRepoFn(callee) && !isInit {
						cn := callee.String()
						if _, modelled := l0models[cn]; !modelled {
							okc := false
							for _, p := range c18Allowed {
								if strings.HasPrefix(cn, p) {
									okc = true
								}
							}
							for _, p := range c18Forbidden {
								if strings.HasPrefix(cn, p) || strings.HasPrefix(cn, "("+p) || strings.HasPrefix(cn, "(*"+p) {
									okc = false
								}
							}
							if !okc {
								callees = append(callees, cn+" at "+pos)
							}
						}
					}
				}
			}
		}
		add(name+"#pure@construct", len(constructs) == 0, strings.Join(constructs, "; "))
		add(name+"#pure@global-write", len(writes) == 0, strings.Join(writes, "; "))
		add(name+"#pure@callee", len(callees) == 0, "call to a library function outside the catalogue of deterministic functions: "+strings.Join(callees, "; "))
	}
	// the keeper holds no cache: exactly codec, logger, store service and the two dependency interfaces
	if kp := w.pkgs[repoPrefix+"/keeper"]; kp != nil {
		if kt := kp.Type("Keeper"); kt != nil {
			st := kt.Type().Underlying().(*types.Struct)
			// a field that can hold mutable state shared between calls (map, slice, pointer, channel, function) could be a
			// cache; interfaces (the injected services) and immutable scalars cannot
			var fields, bad []string
			for i := 0; i < st.NumFields(); i++ {
				f := st.Field(i)
				fields = append(fields, f.Name()+" "+typeShort(f.Type()))
				if !immutableFieldType(f.Type(), 0) {
					bad = append(bad, f.Name()+" "+typeShort(f.Type()))
				}
			}
			add("keeper.Keeper#pure@fields", len(bad) == 0, "Keeper fields that can hold state between calls: "+strings.Join(bad, "; ")+" (all fields: "+strings.Join(fields, "; ")+")")
			// no method writes a keeper field after construction
			var fw []string
			for _, fn := range fns {
				if fn.Name() == "NewKeeper" {
					continue
				}
				for _, b := range fn.Blocks {
					for _, in := range b.Instrs {
						if x, ok := in.(*ssa.Store); ok {
							if fa, ok := x.Addr.(*ssa.FieldAddr); ok {
								if pt, ok := fa.X.Type().Underlying().(*types.Pointer); ok && types.Identical(pt.Elem(), kt.Type()) {
									if _, local := fa.X.(*ssa.Alloc); !local || fa.X.(*ssa.Alloc).Heap {
										fw = append(fw, fnName(fn)+" writes Keeper."+st.Field(fa.Field).Name()+" at "+posOf(w.prog, x.Pos()))
									}
								}
							}
						}
					}
				}
			}
			add("keeper.Keeper#pure@field-write", len(fw) == 0, strings.Join(fw, "; "))
		}
	}
	ex.extra["c18_functions_scanned"] = len(fns)
	ex.extra["c18_instructions_scanned"] = nInstr
}

func immutableFieldType(t types.Type, depth int) bool {
	if depth > 4 {
		return false
	}
	switch u := t.Underlying().(type) {
	case *types.Basic:
		return u.Kind() != types.UnsafePointer
	case *types.Interface:
		return true
	case *types.Struct:
		for i := 0; i < u.NumFields(); i++ {
			if !immutableFieldType(u.Field(i).Type(), depth+1) {
				return false
			}
		}
		return true
	case *types.Array:
		return immutableFieldType(u.Elem(), depth+1)
	}
	return false
}
