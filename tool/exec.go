package main

// Forward symbolic execution of go/ssa function bodies, one path at a time.

import (
	"fmt"
	"go/constant"
	"go/token"
	"go/types"
	"strings"

	"golang.org/x/tools/go/ssa"
)

const repoPrefix = "github.com/circlefin/noble-cctp/x/cctp"

type Obligation struct {
	Name    string
	Kind    string // ensures | requires | nopanic | frame | loop | pure | lemma | binding | vacuity
	Props   map[string]bool
	Fn      string
	Assumes []*Term
	Goal    *Term
	Path    string
	Inputs  []namedTerm // terms worth reporting from a model
	Without []string
	Note    string
	// result
	Res        SolverResult
	replayed   bool
	replayNote string
	replayData map[string]interface{}
	rawText    string    // a ready-made SMT-LIB query (prelude lemma files): must be unsat
	coverPaths [][]*Term // kind "cover": passes when one of these path conditions is not refuted
	// for the replay harness: the function under contract, its symbolic arguments and its pre-state
	fnSSA *ssa.Function
	pre   *State
	args  []Value
}

type namedTerm struct {
	Name string
	T    *Term
}

type Exec struct {
	prog         *ssa.Program
	pkgs         map[string]*ssa.Package
	contracts    map[string]*Contract
	topArgs      []Value
	probe        *scanProbe
	scanSeq      int
	objs         []objInfo
	nextCell     int
	globalCells  map[*ssa.Global]int
	globalVals   map[int]Value
	globalHeap   map[int]*Term
	obls         []*Obligation
	mode         string // "L3" (accessors by contract) or "L2" (raw store)
	top          *ssa.Function
	topC         *Contract
	sweep        bool
	pathCount    int
	maxPaths     int
	unmodelled   map[string]int
	l0used       map[string]int
	inInit       bool
	prop         string // property being checked ("" = all clauses)
	topPre       *State
	topVars      map[string]Value
	resumeHeader *ssa.BasicBlock
	keepTopFrame bool
	topFreeVars  []Value
	noCheck      int
	extra        map[string]interface{}
	inputs       []namedTerm
	fnNotes      map[string][]string
	pathTrace    []string
}

func NewExec(prog *ssa.Program, pkgs map[string]*ssa.Package, contracts map[string]*Contract) *Exec {
	ex := &Exec{prog: prog, pkgs: pkgs, contracts: contracts, globalCells: map[*ssa.Global]int{},
		globalVals: map[int]Value{}, globalHeap: map[int]*Term{}, maxPaths: 4096,
		unmodelled: map[string]int{}, l0used: map[string]int{}, fnNotes: map[string][]string{}, extra: map[string]interface{}{}}
	return ex
}

func (ex *Exec) newObj(size *Term, name string) int {
	ex.objs = append(ex.objs, objInfo{Size: size, Name: name})
	return len(ex.objs) - 1
}

func (ex *Exec) newCell(st *State, v Value) int {
	ex.nextCell++
	st.cells[ex.nextCell] = v
	return ex.nextCell
}

func (ex *Exec) note(st *State, format string, a ...interface{}) {
	s := fmt.Sprintf(format, a...)
	st.notes = append(st.notes, s)
	if ex.top != nil {
		name := fnName(ex.top)
		for _, x := range ex.fnNotes[name] {
			if x == s {
				return
			}
		}
		ex.fnNotes[name] = append(ex.fnNotes[name], s)
	}
}

func fnName(fn *ssa.Function) string {
	s := fn.String()
	s = strings.ReplaceAll(s, repoPrefix+"/", "")
	s = strings.ReplaceAll(s, repoPrefix+".", "cctp.")
	s = strings.ReplaceAll(s, "(", "")
	s = strings.ReplaceAll(s, ")", "")
	s = strings.ReplaceAll(s, "*", "")
	// sub-packages are keyed by their package name: client/cli.parseAddress -> cli.parseAddress
	if i := strings.Index(s, "."); i > 0 {
		if j := strings.LastIndex(s[:i], "/"); j >= 0 {
			s = s[j+1:]
		}
	}
	return s
}

func isRepoFn(fn *ssa.Function) bool {
	p := fn.Pkg
	if p == nil && fn.Parent() != nil {
		p = fn.Parent().Pkg
	}
	if p == nil {
		// wrappers/thunks: look at origin
		if fn.Synthetic != "" && fn.Object() != nil && fn.Object().Pkg() != nil {
			return strings.HasPrefix(fn.Object().Pkg().Path(), repoPrefix)
		}
		return false
	}
	return strings.HasPrefix(p.Pkg.Path(), repoPrefix)
}

// ---- obligations

func (ex *Exec) oblige(st *State, kind, name string, props []string, goal *Term, note string) {
	if ex.probe != nil {
		return // probing a loop iteration: its obligations are generated when the iteration is executed for real
	}
	if goal == TTrue {
		// still counted as discharged syntactically
		ex.obls = append(ex.obls, &Obligation{Name: name, Kind: kind, Props: propSet(props), Fn: fnName(ex.top), Goal: goal, Note: note,
			Res: SolverResult{Status: "unsat", Solver: "syntactic"}})
		return
	}
	o := &Obligation{Name: name, Kind: kind, Props: propSet(props), Fn: fnName(ex.top), Goal: goal,
		Assumes: append([]*Term(nil), st.pc...), Note: note, Inputs: ex.inputs, Path: strings.Join(ex.pathTrace, ">"),
		fnSSA: ex.top, pre: ex.topPre, args: ex.topArgs}
	if ex.topC != nil {
		o.Without = ex.topC.Without
	}
	ex.obls = append(ex.obls, o)
}

func propSet(ps []string) map[string]bool {
	m := map[string]bool{}
	for _, p := range ps {
		m[p] = true
	}
	return m
}

// safety obligation: must hold, then assumed.
func (ex *Exec) safe(st *State, what string, cond *Term) {
	if cond == TTrue {
		return
	}
	if ex.inInit {
		st.assume(cond)
		return
	}
	name := fmt.Sprintf("%s#nopanic@%s", fnName(ex.top), what)
	ex.oblige(st, "nopanic", name, []string{"C20"}, cond, "")
	st.assume(cond)
}

// ---- running functions

type cont func(st *State, res []Value)

func (ex *Exec) runFunc(st *State, fn *ssa.Function, args []Value, k cont) {
	if fn.Blocks == nil {
		panic("runFunc on body-less " + fn.String())
	}
	fr := &Frame{Fn: fn, Regs: map[ssa.Value]Value{}}
	for i, p := range fn.Params {
		fr.Regs[p] = args[i]
	}
	if len(st.frames) == 0 && fn == ex.top {
		for i, fv := range fn.FreeVars {
			if i < len(ex.topFreeVars) {
				fr.Regs[fv] = ex.topFreeVars[i]
			}
		}
	}
	st.frames = append(st.frames, fr)
	depth := len(st.frames)
	ex.runBlock(st, fn.Blocks[0], nil, 0, func(st *State, res []Value) {
		if depth == 1 && ex.keepTopFrame {
			// the top-level function's locals stay visible to its postconditions
			k(st, res)
			return
		}
		st.frames = st.frames[:depth-1]
		k(st, res)
	})
}

func (ex *Exec) runBlock(st *State, b *ssa.BasicBlock, prev *ssa.BasicBlock, from int, k cont) {
	if p := ex.probe; p != nil && from == 0 && prev != nil {
		// probing one iteration of a scan loop: record how it ends
		if b == p.h && p.body[prev] {
			p.cont = append(p.cont, And(st.pc[p.base:]...))
			return
		}
		if !p.body[b] {
			p.exits++
			return
		}
		if isLoopHeader(b) && b != p.h {
			p.bad = true // nested loop
			return
		}
	}
	if from == 0 && prev != nil {
		// loop handling happens at block entry
		if ex.enterLoopHeader(st, b, prev, k) {
			return
		}
	}
	fr := st.top()
	for i := from; i < len(b.Instrs); i++ {
		in := b.Instrs[i]
		switch x := in.(type) {
		case *ssa.Phi:
			idx := -1
			for j, p := range b.Preds {
				if p == prev {
					idx = j
				}
			}
			if idx < 0 {
				panic("phi: no pred")
			}
			fr.Regs[x] = ex.val(st, x.Edges[idx])
		case *ssa.If:
			c := ex.val(st, x.Cond).(VBool).T
			if c == TTrue {
				ex.runBlock(st, b.Succs[0], b, 0, k)
				return
			}
			if c == TFalse {
				ex.runBlock(st, b.Succs[1], b, 0, k)
				return
			}
			ex.pathCount++
			if ex.pathCount > ex.maxPaths {
				ex.oblige(st, "limit", fnName(ex.top)+"#tool-limit@paths", nil, TFalse, "path cap exceeded")
				return
			}
			st2 := st.clone()
			st.assume(c)
			st2.assume(Not(c))
			tr := ex.pathTrace
			ex.pathTrace = append(append([]string(nil), tr...), fmt.Sprintf("b%d.T", b.Index))
			if !st.infeasible() {
				ex.runBlock(st, b.Succs[0], b, 0, k)
			}
			ex.pathTrace = append(append([]string(nil), tr...), fmt.Sprintf("b%d.F", b.Index))
			if !st2.infeasible() {
				ex.runBlock(st2, b.Succs[1], b, 0, k)
			}
			ex.pathTrace = tr
			return
		case *ssa.Jump:
			ex.runBlock(st, b.Succs[0], b, 0, k)
			return
		case *ssa.Return:
			var res []Value
			for _, r := range x.Results {
				res = append(res, ex.val(st, r))
			}
			k(st, res)
			return
		case *ssa.Panic:
			if ex.inInit {
				return
			}
			ex.oblige(st, "nopanic", fmt.Sprintf("%s#nopanic@panic", fnName(ex.top)), []string{"C20"}, TFalse, "explicit panic reachable: "+posOf(ex.prog, x.Pos()))
			return
		case *ssa.Call:
			b2, i2 := b, i
			done := false
			ex.call(st, x, x.Common(), func(st *State, res []Value) {
				done = true
				fr := st.top()
				if len(res) == 1 {
					fr.Regs[x] = res[0]
				} else {
					fr.Regs[x] = VTuple(res)
				}
				ex.runBlock(st, b2, prev, i2+1, k)
			})
			_ = done
			return
		case *ssa.Defer:
			fr.Defers = append(fr.Defers, x)
		case *ssa.RunDefers:
			// the only deferred calls in scope are iterator.Close(); run their models in reverse
			ds := fr.Defers
			fr.Defers = nil
			for j := len(ds) - 1; j >= 0; j-- {
				ex.callSimple(st, ds[j].Common())
			}
		case *ssa.Go, *ssa.Select, *ssa.Send:
			ex.oblige(st, "pure", fnName(ex.top)+"#pure@construct", []string{"C18"}, TFalse, fmt.Sprintf("%T at %s", in, posOf(ex.prog, in.Pos())))
			return
		case *ssa.Store:
			ex.store(st, ex.val(st, x.Addr), ex.val(st, x.Val), x)
		case *ssa.MapUpdate:
			m, ok := ex.val(st, x.Map).(VMap)
			if !ok || m.Cell <= 0 {
				ex.note(st, "unmodelled-instruction:mapupdate on %s", typeShort(x.Map.Type()))
				break
			}
			mv := st.cells[m.Cell].(VMapVal)
			key := ex.val(st, x.Key).(VStr).T
			stored := TTrue
			if bv, isBool := ex.val(st, x.Value).(VBool); isBool {
				stored = bv.T // map[string]bool: Set[k] is "m[k] yields true"
			}
			st.cells[m.Cell] = VMapVal{Set: Store(mv.Set, key, stored)}
		case *ssa.DebugRef:
		case ssa.Value:
			fr.Regs[x] = ex.evalInstr(st, x)
			if st.infeasible() {
				return
			}
		default:
			panic(fmt.Sprintf("unhandled instruction %T", in))
		}
	}
}

func posOf(prog *ssa.Program, p token.Pos) string {
	if !p.IsValid() {
		return "?"
	}
	pos := prog.Fset.Position(p)
	f := pos.Filename
	if i := strings.Index(f, "/x/cctp/"); i >= 0 {
		f = f[i+1:]
	}
	return fmt.Sprintf("%s:%d", f, pos.Line)
}

// callSimple runs an L0 model that cannot fork (used for defers).
func (ex *Exec) callSimple(st *State, cc *ssa.CallCommon) {
	name := calleeName(cc)
	if m, ok := l0models[name]; ok {
		var args []Value
		if cc.IsInvoke() {
			args = append(args, ex.val(st, cc.Value))
		}
		for _, a := range cc.Args {
			args = append(args, ex.val(st, a))
		}
		ex.l0used[name]++
		m(ex, st, cc, args)
		return
	}
	ex.note(st, "unmodelled-call:%s (deferred)", name)
	ex.unmodelled[name]++
}

func calleeName(cc *ssa.CallCommon) string {
	if cc.IsInvoke() {
		return "invoke:" + typeShort(cc.Value.Type()) + "." + cc.Method.Name()
	}
	if f := cc.StaticCallee(); f != nil {
		return f.String()
	}
	if b, ok := cc.Value.(*ssa.Builtin); ok {
		return "builtin:" + b.Name()
	}
	return "dynamic"
}

// ---- values of SSA operands

func (ex *Exec) val(st *State, v ssa.Value) Value {
	switch x := v.(type) {
	case *ssa.Const:
		return ex.constVal(st, x)
	case *ssa.Global:
		return VPtr{Cell: ex.globalCell(st, x)}
	case *ssa.Function:
		return VClosure{Fn: x}
	case *ssa.Builtin:
		return VOpaque{"builtin"}
	}
	for i := len(st.frames) - 1; i >= 0; i-- {
		if r, ok := st.frames[i].Regs[v]; ok {
			return r
		}
		break
	}
	if fv, ok := v.(*ssa.FreeVar); ok {
		fr := st.top()
		if r, ok := fr.Regs[fv]; ok {
			return r
		}
	}
	panic(fmt.Sprintf("no value for %s (%T) in %s", v.Name(), v, st.top().Fn))
}

func (ex *Exec) globalCell(st *State, g *ssa.Global) int {
	if c, ok := ex.globalCells[g]; ok {
		if _, ok := st.cells[c]; !ok {
			// state predates the cell (init execution): create zero
			st.cells[c] = ex.zero(st, g.Type().(*types.Pointer).Elem(), 0)
		}
		return c
	}
	ex.nextCell++
	c := ex.nextCell
	ex.globalCells[g] = c
	st.cells[c] = ex.zero(st, g.Type().(*types.Pointer).Elem(), 0)
	return c
}

func (ex *Exec) constVal(st *State, c *ssa.Const) Value {
	t := c.Type()
	if c.Value == nil {
		return ex.zero(st, t, 0)
	}
	switch classify(t) {
	case kBool:
		return VBool{Bool(constant.BoolVal(c.Value))}
	case kInt:
		w, s := intInfo(t)
		bi, _ := new(bigInt).SetString(c.Value.ExactString(), 10)
		if bi == nil {
			// rune or other formats
			i64, _ := constant.Int64Val(constant.ToInt(c.Value))
			return VBV{BV(w, i64), s}
		}
		return VBV{BVBig(w, bi), s}
	case kStr:
		return VStr{BytesConst(constant.StringVal(c.Value))}
	}
	return VOpaque{"const:" + c.String()}
}

// zero value of a Go type.
func (ex *Exec) zero(st *State, t types.Type, depth int) Value {
	switch classify(t) {
	case kBool:
		return VBool{TFalse}
	case kInt:
		w, s := intInfo(t)
		return VBV{BV(w, 0), s}
	case kStr:
		return VStr{EmptyBytes}
	case kBytes:
		return nilSlice()
	case kBig:
		return VBig{Nil: TTrue, V: BV(bigW, 0)}
	case kStruct:
		s := t.Underlying().(*types.Struct)
		if depth > 4 {
			return VOpaque{"deep:" + typeShort(t)}
		}
		out := VStruct{T: t}
		for i := 0; i < s.NumFields(); i++ {
			out.F = append(out.F, ex.zero(st, s.Field(i).Type(), depth+1))
		}
		return out
	case kPtr:
		return VPtr{Cell: -1}
	case kErr:
		return VErr{TFalse}
	case kList:
		return ex.emptyList(t.Underlying().(*types.Slice).Elem())
	case kIface:
		return VIface{}
	case kByteArr:
		a := t.Underlying().(*types.Array)
		n := int(a.Len())
		obj := ex.newObj(BV(64, int64(n)), "arr")
		if n > 4096 {
			ex.objs[obj].Opaque = true
		}
		st.heap[obj] = ZeroArr
		return VByteArr{Obj: obj, N: n}
	case kArray:
		a := t.Underlying().(*types.Array)
		if a.Len() > 64 {
			return VOpaque{"bigarray"}
		}
		out := VArray{}
		for i := int64(0); i < a.Len(); i++ {
			out.E = append(out.E, ex.zero(st, a.Elem(), depth+1))
		}
		return out
	case kMap:
		return VMap{Cell: -1}
	case kFunc:
		return VClosure{}
	}
	return VOpaque{"zero:" + typeShort(t)}
}

func nilSlice() VSlice {
	return VSlice{Obj: -1, Off: BV(64, 0), Len: BV(64, 0), Cap: BV(64, 0), Nil: TTrue}
}

// ---- instruction evaluation (non-control)

func (ex *Exec) evalInstr(st *State, in ssa.Value) Value {
	switch x := in.(type) {
	case *ssa.Alloc:
		et := x.Type().(*types.Pointer).Elem()
		if isNamed(et, "math/big", "Int") {
			// new(big.Int): a non-nil *big.Int holding 0 (big.Ints are treated as immutable values)
			return VBig{Nil: TFalse, V: BV(bigW, 0)}
		}
		return VPtr{Cell: ex.newCell(st, ex.zero(st, et, 0))}
	case *ssa.BinOp:
		return ex.binop(st, x)
	case *ssa.UnOp:
		return ex.unop(st, x)
	case *ssa.ChangeType:
		return ex.val(st, x.X)
	case *ssa.ChangeInterface:
		return ex.val(st, x.X)
	case *ssa.Convert:
		return ex.convert(st, x)
	case *ssa.MakeInterface:
		v := ex.val(st, x.X)
		if classify(x.Type()) == kErr {
			if e, ok := v.(VErr); ok {
				return e
			}
			return VErr{TTrue}
		}
		return VIface{Dyn: v, DynT: x.X.Type()}
	case *ssa.Extract:
		return ex.val(st, x.Tuple).(VTuple)[x.Index]
	case *ssa.Field:
		v := ex.val(st, x.X)
		if s, ok := v.(VStruct); ok {
			return s.F[x.Field]
		}
		ex.note(st, "unmodelled-instruction:field-of-%T", v)
		return ex.havoc(st, x.Type(), "field")
	case *ssa.FieldAddr:
		p := ex.val(st, x.X)
		switch pp := p.(type) {
		case VPtr:
			ex.derefCheck(st, pp, x)
			return VPtr{Cell: pp.Cell, Path: append(append([]int(nil), pp.Path...), x.Field), Val: pp.Val}
		case VListPtr:
			elem := ex.listElem(st, pp.L, pp.Idx)
			return VPtr{Cell: -2, Val: elem, Path: []int{x.Field}}
		}
		ex.note(st, "unmodelled-instruction:fieldaddr-of-%T", p)
		return VPtr{Cell: -2, Val: ex.havoc(st, x.Type().(*types.Pointer).Elem(), "fieldaddr")}
	case *ssa.IndexAddr:
		return ex.indexAddr(st, x)
	case *ssa.Index:
		v := ex.val(st, x.X)
		if a, ok := v.(VArray); ok {
			if i, ok := ex.val(st, x.Index).(VBV).T.U64(); ok && int(i) < len(a.E) {
				return a.E[i]
			}
		}
		if s, ok := v.(VStr); ok { // string index
			idx := toBV64(ex.val(st, x.Index).(VBV))
			ex.safe(st, "index:string", BVUlt(idx, Blen(s.T)))
			return VBV{Select(Barr(s.T), idx), false}
		}
		return ex.havoc(st, x.Type(), "index")
	case *ssa.Slice:
		return ex.slice(st, x)
	case *ssa.Lookup:
		v := ex.val(st, x.X)
		switch m := v.(type) {
		case VMap:
			key := ex.val(st, x.Index).(VStr).T
			mv := st.cells[m.Cell].(VMapVal)
			et := x.X.Type().Underlying().(*types.Map).Elem()
			if classify(et) == kBool {
				// map[string]bool used as a set: Set[k] is "m[k] yields true"
				val := Select(mv.Set, key)
				if x.CommaOk {
					okT := Fresh("map.ok", SBool)
					st.assume(Implies(val, okT))
					return VTuple{VBool{val}, VBool{okT}}
				}
				return VBool{val}
			}
			var elem Value
			if s, isStruct := et.Underlying().(*types.Struct); isStruct && s.NumFields() == 0 {
				elem = ex.zero(st, et, 0)
			} else {
				elem = ex.havoc(st, et, "mapvalue") // stored values are not modelled
			}
			if x.CommaOk {
				return VTuple{elem, VBool{Select(mv.Set, key)}}
			}
			return elem
		case VStr:
			idx := toBV64(ex.val(st, x.Index).(VBV))
			ex.safe(st, "index:string", BVUlt(idx, Blen(m.T)))
			return VBV{Select(Barr(m.T), idx), false}
		}
		return ex.havoc(st, x.Type(), "lookup")
	case *ssa.MakeMap:
		mt := x.Type().Underlying().(*types.Map)
		if classify(mt.Key()) == kStr {
			c := ex.newCell(st, VMapVal{Set: ConstArr(SArray(SBytes, SBool), TFalse)})
			return VMap{Cell: c}
		}
		ex.note(st, "unmodelled-instruction:makemap %s", typeShort(mt))
		return VOpaque{"map"}
	case *ssa.MakeSlice:
		n := toBV64(ex.val(st, x.Len).(VBV))
		if classify(x.Type()) == kBytes {
			// make([]byte, n): n must be non-negative and allocatable
			ex.safe(st, "makeslice", BVUle(n, BVU(64, 1<<47)))
			obj := ex.newObj(n, "make")
			st.heap[obj] = ZeroArr
			return VSlice{Obj: obj, Off: BV(64, 0), Len: n, Cap: n, Nil: TFalse}
		}
		return ex.havoc(st, x.Type(), "makeslice")
	case *ssa.MakeClosure:
		c := VClosure{Fn: x.Fn.(*ssa.Function)}
		for _, b := range x.Bindings {
			c.Bind = append(c.Bind, ex.val(st, b))
		}
		return c
	case *ssa.TypeAssert:
		ex.note(st, "unmodelled-instruction:typeassert")
		return ex.havoc(st, x.Type(), "typeassert")
	case *ssa.Range, *ssa.Next:
		ex.oblige(st, "pure", fnName(ex.top)+"#pure@construct", []string{"C18"}, TFalse, "range over map/string at "+posOf(ex.prog, in.Pos()))
		st.assume(TFalse)
		return VOpaque{"range"}
	}
	panic(fmt.Sprintf("unhandled value instruction %T in %s", in, st.top().Fn))
}

func toBV64(v VBV) *Term {
	if v.T.Width() == 64 {
		return v.T
	}
	if v.Signed {
		return SignExt(64, v.T)
	}
	return ZeroExt(64, v.T)
}

func (ex *Exec) derefCheck(st *State, p VPtr, at ssa.Instruction) {
	if p.Cell == -1 {
		ex.safe(st, "nilderef", TFalse)
		return
	}
	if p.NilT != nil {
		ex.safe(st, "nilderef", Not(p.NilT))
	}
}

// specLoad reads through a pointer for contract evaluation: no safety obligation is generated.
func (ex *Exec) specLoad(st *State, p Value) Value {
	ex.noCheck++
	defer func() { ex.noCheck-- }()
	return ex.load(st, p, nil)
}

func (ex *Exec) load(st *State, p Value, at ssa.Instruction) Value {
	switch pp := p.(type) {
	case VPtr:
		if ex.noCheck == 0 {
			ex.derefCheck(st, pp, at)
		}
		if st.infeasible() {
			return VOpaque{"dead"}
		}
		var v Value
		if pp.Cell == -2 {
			v = pp.Val
		} else {
			var ok bool
			v, ok = st.cells[pp.Cell]
			if !ok {
				panic(fmt.Sprintf("load from unknown cell %d", pp.Cell))
			}
		}
		for _, i := range pp.Path {
			switch s := v.(type) {
			case VStruct:
				v = s.F[i]
			case VArray:
				v = s.E[i]
			default:
				return VOpaque{"load-through-opaque"}
			}
		}
		return v
	case VBytePtr:
		return VBV{Select(st.heap[pp.Obj], pp.Idx), false}
	case VListPtr:
		return ex.listElem(st, pp.L, pp.Idx)
	}
	ex.note(st, "unmodelled-instruction:load-of-%T", p)
	return VOpaque{"load"}
}

func (ex *Exec) store(st *State, addr, v Value, at ssa.Instruction) {
	switch pp := addr.(type) {
	case VPtr:
		ex.derefCheck(st, pp, at)
		if pp.Cell < 0 {
			return
		}
		if _, global := ex.globalVals[pp.Cell]; global && !ex.inInit && ex.top != nil {
			ex.oblige(st, "pure", fnName(ex.top)+"#pure@global-write", []string{"C18"}, TFalse, "assignment to a package-level variable")
		}
		st.cells[pp.Cell] = updatePath(st.cells[pp.Cell], pp.Path, v)
	case VBytePtr:
		if ex.objs[pp.Obj].Opaque {
			return
		}
		if _, global := ex.globalHeap[pp.Obj]; global && !ex.inInit {
			ex.oblige(st, "pure", fnName(ex.top)+"#pure@global-write", []string{"C18"}, TFalse, "store into the memory of a package-level variable")
		}
		st.heap[pp.Obj] = Store(st.heap[pp.Obj], pp.Idx, v.(VBV).T)
	default:
		ex.note(st, "unmodelled-instruction:store-to-%T", addr)
	}
}

func updatePath(root Value, path []int, v Value) Value {
	if len(path) == 0 {
		return v
	}
	switch s := root.(type) {
	case VStruct:
		nf := append([]Value(nil), s.F...)
		nf[path[0]] = updatePath(nf[path[0]], path[1:], v)
		return VStruct{T: s.T, F: nf}
	case VArray:
		ne := append([]Value(nil), s.E...)
		ne[path[0]] = updatePath(ne[path[0]], path[1:], v)
		return VArray{E: ne}
	}
	return root // opaque: drop
}

func (ex *Exec) unop(st *State, x *ssa.UnOp) Value {
	v := ex.val(st, x.X)
	switch x.Op {
	case token.MUL:
		return ex.load(st, v, x)
	case token.NOT:
		return VBool{Not(v.(VBool).T)}
	case token.SUB:
		b := v.(VBV)
		return VBV{BVNeg(b.T), b.Signed}
	case token.XOR:
		b := v.(VBV)
		return VBV{BVNot(b.T), b.Signed}
	}
	ex.oblige(st, "pure", fnName(ex.top)+"#pure@construct", []string{"C18"}, TFalse, "channel receive")
	return ex.havoc(st, x.Type(), "unop")
}

func (ex *Exec) binop(st *State, x *ssa.BinOp) Value {
	a, b := ex.val(st, x.X), ex.val(st, x.Y)
	switch av := a.(type) {
	case VBV:
		bv := b.(VBV)
		at, bt := av.T, bv.T
		signed := av.Signed
		if x.Op == token.SHL || x.Op == token.SHR {
			// shift count: extend/truncate to width of a (counts >= width give 0, as Go)
			if bt.Width() < at.Width() {
				bt = ZeroExt(at.Width(), bt)
			} else if bt.Width() > at.Width() {
				big := BVUge(bt, BV(bt.Width(), int64(at.Width())))
				bt = Ite(big, BV(at.Width(), int64(at.Width())), Extract(at.Width()-1, 0, bt))
			}
		}
		switch x.Op {
		case token.ADD:
			return VBV{BVAdd(at, bt), signed}
		case token.SUB:
			return VBV{BVSub(at, bt), signed}
		case token.MUL:
			return VBV{BVMul(at, bt), signed}
		case token.QUO:
			ex.safe(st, "divzero", Neq(bt, BV(bt.Width(), 0)))
			if signed {
				return VBV{BVSdiv(at, bt), signed}
			}
			return VBV{BVUdiv(at, bt), signed}
		case token.REM:
			ex.safe(st, "divzero", Neq(bt, BV(bt.Width(), 0)))
			if signed {
				return VBV{BVSrem(at, bt), signed}
			}
			return VBV{BVUrem(at, bt), signed}
		case token.AND:
			return VBV{BVAndT(at, bt), signed}
		case token.OR:
			return VBV{BVOrT(at, bt), signed}
		case token.XOR:
			return VBV{BVXorT(at, bt), signed}
		case token.AND_NOT:
			return VBV{BVAndT(at, BVNot(bt)), signed}
		case token.SHL:
			return VBV{BVShl(at, bt), signed}
		case token.SHR:
			if signed {
				return VBV{BVAshr(at, bt), signed}
			}
			return VBV{BVLshr(at, bt), signed}
		case token.EQL:
			return VBool{Eq(at, bt)}
		case token.NEQ:
			return VBool{Neq(at, bt)}
		case token.LSS:
			if signed {
				return VBool{BVSlt(at, bt)}
			}
			return VBool{BVUlt(at, bt)}
		case token.LEQ:
			if signed {
				return VBool{BVSle(at, bt)}
			}
			return VBool{BVUle(at, bt)}
		case token.GTR:
			if signed {
				return VBool{BVSgt(at, bt)}
			}
			return VBool{BVUgt(at, bt)}
		case token.GEQ:
			if signed {
				return VBool{BVSge(at, bt)}
			}
			return VBool{BVUge(at, bt)}
		}
	case VBool:
		bt := b.(VBool).T
		switch x.Op {
		case token.EQL:
			return VBool{Eq(av.T, bt)}
		case token.NEQ:
			return VBool{Neq(av.T, bt)}
		case token.AND:
			return VBool{And(av.T, bt)}
		case token.OR:
			return VBool{Or(av.T, bt)}
		}
	case VStr:
		bt := b.(VStr).T
		switch x.Op {
		case token.EQL:
			return VBool{Eq(av.T, bt)}
		case token.NEQ:
			return VBool{Neq(av.T, bt)}
		case token.ADD:
			return VStr{Cat(av.T, bt)}
		}
	case VErr:
		if be, ok := b.(VErr); ok && be.Is == TFalse {
			if x.Op == token.EQL {
				return VBool{Not(av.Is)}
			}
			return VBool{av.Is}
		}
	case VSlice:
		// comparison with nil only
		if x.Op == token.EQL {
			return VBool{av.Nil}
		}
		return VBool{Not(av.Nil)}
	case VBig:
		// *big.Int compared with nil
		if x.Op == token.EQL {
			return VBool{av.Nil}
		}
		return VBool{Not(av.Nil)}
	case VPtr:
		bp, ok := b.(VPtr)
		var eq *Term
		switch {
		case ok && bp.Cell == -1 && bp.NilT == nil: // compare with nil
			if av.Cell == -1 && av.NilT == nil {
				eq = TTrue
			} else if av.NilT != nil {
				eq = av.NilT
			} else {
				eq = TFalse
			}
		case ok && av.Cell == -1 && av.NilT == nil:
			if bp.NilT != nil {
				eq = bp.NilT
			} else {
				eq = TFalse
			}
		case ok:
			eq = Bool(av.Cell == bp.Cell && fmt.Sprint(av.Path) == fmt.Sprint(bp.Path))
		}
		if eq != nil {
			if x.Op == token.EQL {
				return VBool{eq}
			}
			return VBool{Not(eq)}
		}
	case VList:
		// list compared with nil: treat "nil" as "empty" is not exact; use a fresh flag implied by len==0
		f := Fresh("listnil", SBool)
		st.assume(Implies(f, Eq(av.Len, BV(64, 0))))
		if x.Op == token.EQL {
			return VBool{f}
		}
		return VBool{Not(f)}
	case VIface:
		if bi, ok := b.(VIface); ok && bi.Dyn == nil {
			if x.Op == token.EQL {
				return VBool{Bool(av.Dyn == nil)}
			}
			return VBool{Bool(av.Dyn != nil)}
		}
	}
	ex.note(st, "unmodelled-instruction:binop %s on %T", x.Op, a)
	return ex.havoc(st, x.Type(), "binop")
}

func (ex *Exec) convert(st *State, x *ssa.Convert) Value {
	v := ex.val(st, x.X)
	from, to := classify(x.X.Type()), classify(x.Type())
	switch {
	case from == kInt && to == kInt:
		w, s := intInfo(x.Type())
		b := v.(VBV)
		if b.Signed {
			return VBV{SignExt(w, b.T), s}
		}
		return VBV{ZeroExt(w, b.T), s}
	case from == kStr && to == kBytes:
		s := v.(VStr).T
		obj := ex.newObj(Blen(s), "conv")
		st.heap[obj] = Barr(s)
		return VSlice{Obj: obj, Off: BV(64, 0), Len: Blen(s), Cap: Blen(s), Nil: TFalse, Whole: s}
	case from == kBytes && to == kStr:
		return VStr{ex.snapshot(st, v.(VSlice))}
	case from == kBytes && to == kBytes, from == kStr && to == kStr:
		return v
	}
	ex.note(st, "unmodelled-instruction:convert %s->%s", typeShort(x.X.Type()), typeShort(x.Type()))
	return ex.havoc(st, x.Type(), "convert")
}

// snapshot returns the canonical Bytes value of a slice's current content.
func (ex *Exec) snapshot(st *State, s VSlice) *Term {
	if s.Obj < 0 {
		return EmptyBytes
	}
	arr := st.heap[s.Obj]
	if s.Whole != nil && arr == Barr(s.Whole) && s.Len == Blen(s.Whole) && s.Off == BV(64, 0) {
		return s.Whole
	}
	return snapArr(arr, s.Off, s.Len)
}

func snapArr(arr, off, ln *Term) *Term {
	if arr == ZeroArr {
		return MkBytes(ZeroArr, ln)
	}
	if n, ok := ln.U64(); ok && n <= 256 {
		if _, ok := off.U64(); ok || n <= 128 {
			out := ZeroArr
			for i := uint64(0); i < n; i++ {
				b := Select(arr, BVAdd(off, BVU(64, i)))
				if !(b.Op == "const" && b.Val.Sign() == 0) {
					out = Store(out, BVU(64, i), b)
				}
			}
			return MkBytes(out, ln)
		}
	}
	if off.Op == "const" && off.Val.Sign() == 0 && arr.Op == "barr" && ln.Op == "blen" && arr.Args[0] == ln.Args[0] {
		return arr.Args[0]
	}
	return App("snap", SBytes, arr, off, ln)
}

// Cat is byte-string concatenation (prelude function with defining axioms).
func Cat(a, b *Term) *Term {
	if a == EmptyBytes {
		return b
	}
	if b == EmptyBytes {
		return a
	}
	la, oka := Blen(a).U64()
	lb, okb := Blen(b).U64()
	if oka && okb && la+lb <= 256 && a.Op == "mkb" && b.Op == "mkb" {
		out := ZeroArr
		for i := uint64(0); i < la; i++ {
			out = storeNZ(out, i, Select(Barr(a), BVU(64, i)))
		}
		for i := uint64(0); i < lb; i++ {
			out = storeNZ(out, la+i, Select(Barr(b), BVU(64, i)))
		}
		return MkBytes(out, BVU(64, la+lb))
	}
	return App("cat", SBytes, a, b)
}

func storeNZ(arr *Term, i uint64, b *Term) *Term {
	if b.Op == "const" && b.Val.Sign() == 0 {
		return arr
	}
	return Store(arr, BVU(64, i), b)
}

func (ex *Exec) indexAddr(st *State, x *ssa.IndexAddr) Value {
	base := ex.val(st, x.X)
	idx := toBV64(ex.val(st, x.Index).(VBV))
	switch b := base.(type) {
	case VSlice:
		ex.safe(st, "index", BVUlt(idx, b.Len))
		if b.Obj < 0 {
			st.assume(TFalse)
			return VBytePtr{0, idx}
		}
		return VBytePtr{Obj: b.Obj, Idx: BVAdd(b.Off, idx)}
	case VPtr:
		cv := ex.load(st, b, x)
		switch a := cv.(type) {
		case VByteArr:
			ex.safe(st, "index", BVUlt(idx, BV(64, int64(a.N))))
			return VBytePtr{Obj: a.Obj, Idx: idx}
		case VArray:
			if i, ok := idx.U64(); ok && int(i) < len(a.E) {
				return VPtr{Cell: b.Cell, Path: append(append([]int(nil), b.Path...), int(i)), Val: b.Val}
			}
		case VOpaque:
			return VPtr{Cell: -2, Val: VOpaque{"elem"}}
		}
	case VList:
		ex.safe(st, "index", BVUlt(idx, b.Len))
		return VListPtr{L: &b, Idx: idx}
	case VVals:
		if i, ok := idx.U64(); ok && int(i) < len(b.E) {
			return VPtr{Cell: -2, Val: b.E[i]}
		}
	}
	ex.note(st, "unmodelled-instruction:indexaddr on %T", base)
	return VPtr{Cell: -2, Val: ex.havoc(st, x.Type().(*types.Pointer).Elem(), "indexaddr")}
}

// VVals is an immutable generic slice with concrete elements (varargs, sdk.Coins).
type VVals struct{ E []Value }

func (ex *Exec) slice(st *State, x *ssa.Slice) Value {
	base := ex.val(st, x.X)
	var lo, hi *Term
	if x.Low != nil {
		lo = toBV64(ex.val(st, x.Low).(VBV))
	} else {
		lo = BV(64, 0)
	}
	if x.High != nil {
		hi = toBV64(ex.val(st, x.High).(VBV))
	}
	switch b := base.(type) {
	case VSlice:
		if hi == nil {
			hi = b.Len
		}
		// Go: 0 <= lo <= hi <= cap
		ex.safe(st, "slice", And(BVUle(lo, hi), BVUle(hi, b.Cap)))
		return VSlice{Obj: b.Obj, Off: BVAdd(b.Off, lo), Len: BVSub(hi, lo), Cap: BVSub(b.Cap, lo), Nil: b.Nil}
	case VStr:
		if hi == nil {
			hi = Blen(b.T)
		}
		ex.safe(st, "slice:string", And(BVUle(lo, hi), BVUle(hi, Blen(b.T))))
		return VStr{snapArr(Barr(b.T), lo, BVSub(hi, lo))}
	case VPtr:
		cv := ex.load(st, b, x)
		switch a := cv.(type) {
		case VByteArr:
			n := BV(64, int64(a.N))
			if hi == nil {
				hi = n
			}
			ex.safe(st, "slice", And(BVUle(lo, hi), BVUle(hi, n)))
			return VSlice{Obj: a.Obj, Off: lo, Len: BVSub(hi, lo), Cap: BVSub(n, lo), Nil: TFalse}
		case VArray:
			l, ok1 := lo.U64()
			h := uint64(len(a.E))
			ok2 := true
			if hi != nil {
				h, ok2 = hi.U64()
			}
			if ok1 && ok2 && l <= h && int(h) <= len(a.E) {
				return VVals{E: append([]Value(nil), a.E[l:h]...)}
			}
		}
	case VList:
		if x.Low == nil && x.High == nil {
			return b
		}
	case VVals:
		if x.Low == nil && x.High == nil {
			return b
		}
	}
	ex.note(st, "unmodelled-instruction:slice on %T", base)
	return ex.havoc(st, x.Type(), "slice")
}

// ---- fresh symbolic values

func (ex *Exec) havoc(st *State, t types.Type, hint string) Value {
	return ex.fresh(st, t, hint, 0)
}

func (ex *Exec) fresh(st *State, t types.Type, hint string, depth int) Value {
	switch classify(t) {
	case kBool:
		return VBool{Fresh(hint, SBool)}
	case kInt:
		w, s := intInfo(t)
		return VBV{Fresh(hint, SBV(w)), s}
	case kStr:
		return VStr{ex.freshBytes(st, hint)}
	case kBytes:
		return ex.freshSlice(st, hint)
	case kBig:
		nilT := Fresh(hint+".isnil", SBool)
		v := Fresh(hint+".v", SBV(bigW))
		st.assume(bigInRange(v))
		return VBig{Nil: nilT, V: Ite(nilT, BV(bigW, 0), v)}
	case kStruct:
		s := t.Underlying().(*types.Struct)
		if depth > 4 {
			return VOpaque{"deep"}
		}
		out := VStruct{T: t}
		for i := 0; i < s.NumFields(); i++ {
			out.F = append(out.F, ex.fresh(st, s.Field(i).Type(), hint+"."+s.Field(i).Name(), depth+1))
		}
		return out
	case kPtr:
		et := t.(*types.Pointer).Elem()
		switch classify(et) {
		case kStruct, kList, kBytes, kStr, kInt, kBool, kBig:
			if depth <= 3 {
				c := ex.newCell(st, ex.fresh(st, et, hint, depth+1))
				if _, isProto := protoTypes[protoName(et)]; depth > 0 && isProto {
					// a pointer to a proto message stored inside an input value (optional field) may be nil
					return VPtr{Cell: c, NilT: Fresh(hint+".isnil", SBool)}
				}
				return VPtr{Cell: c}
			}
		}
		return VOpaque{"ptr:" + typeShort(t)}
	case kErr:
		return VErr{Fresh(hint+".err", SBool)}
	case kList:
		return ex.freshList(st, t.Underlying().(*types.Slice).Elem(), hint)
	case kIface:
		return VIface{Dyn: VOpaque{hint}, DynT: nil}
	case kTuple:
		tt := t.(*types.Tuple)
		var out VTuple
		for i := 0; i < tt.Len(); i++ {
			out = append(out, ex.fresh(st, tt.At(i).Type(), fmt.Sprintf("%s.%d", hint, i), depth))
		}
		return out
	}
	return VOpaque{"fresh:" + typeShort(t)}
}

var maxLen = BVU(64, 1<<40)

func (ex *Exec) freshBytes(st *State, hint string) *Term {
	b := Fresh(hint, SBytes)
	st.assume(App("canon", SBool, b))
	st.assume(BVUle(Blen(b), maxLen))
	return b
}

func (ex *Exec) freshSlice(st *State, hint string) VSlice {
	content := ex.freshBytes(st, hint)
	nilT := Fresh(hint+".isnil", SBool)
	st.assume(Implies(nilT, Eq(Blen(content), BV(64, 0))))
	obj := ex.newObj(Blen(content), hint)
	st.heap[obj] = Barr(content)
	return VSlice{Obj: obj, Off: BV(64, 0), Len: Blen(content), Cap: Blen(content), Nil: nilT, Whole: content}
}

// sliceOfBytes makes a fresh non-nil slice with the given content.
func (ex *Exec) sliceOf(st *State, content *Term, nilT *Term) VSlice {
	obj := ex.newObj(Blen(content), "lib")
	st.heap[obj] = Barr(content)
	return VSlice{Obj: obj, Off: BV(64, 0), Len: Blen(content), Cap: Blen(content), Nil: nilT, Whole: content}
}

func bigInRange(v *Term) *Term {
	// |v| < 2^256 as a 264-bit signed number
	lim := BVBig(bigW, new(bigInt).Lsh(bigOne, 256))
	neg := BVBig(bigW, new(bigInt).Neg(new(bigInt).Lsh(bigOne, 256)))
	return And(BVSlt(v, lim), BVSgt(v, neg))
}
