package main

// SMT term DAG with hash-consing, constant folding and an SMT-LIB 2 printer.
// Sorts are kept as their SMT-LIB spelling.

import (
	"fmt"
	"math/big"
	"sort"
	"strings"
)

const (
	SBool  = "Bool"
	SBytes = "Bytes" // datatype (mkb (barr Arr) (blen BV64)), always canonical: barr[i]=0 for i>=blen
	SArr   = "(Array (_ BitVec 64) (_ BitVec 8))"
)

func SBV(w int) string { return fmt.Sprintf("(_ BitVec %d)", w) }
func SArray(idx, elt string) string {
	return "(Array " + idx + " " + elt + ")"
}

func bvWidth(s string) int {
	var w int
	if _, err := fmt.Sscanf(s, "(_ BitVec %d)", &w); err != nil {
		return 0
	}
	return w
}

// arraySorts splits "(Array I E)" into I and E.
func arraySorts(s string) (string, string) {
	if !strings.HasPrefix(s, "(Array ") {
		panic("not an array sort: " + s)
	}
	body := s[len("(Array ") : len(s)-1]
	// first sort: balanced parens or atom
	depth := 0
	for i, c := range body {
		switch c {
		case '(':
			depth++
		case ')':
			depth--
		case ' ':
			if depth == 0 {
				return body[:i], body[i+1:]
			}
		}
	}
	panic("bad array sort " + s)
}

type Term struct {
	Op   string // SMT operator, or "var", "const", "app", "forall", "exists"
	Name string // for var/app: symbol; for extract etc: indexed op text
	Args []*Term
	Sort string
	Val  *big.Int // for bv const
	B    bool     // for bool const
	id   int
	// quantifiers
	Bound []*Term
	Pats  [][]*Term
	// declaration info for app: argument sorts are taken from Args
}

var (
	termTable = map[string]*Term{}
	termSeq   = 0
)

func intern(t *Term) *Term {
	var sb strings.Builder
	sb.WriteString(t.Op)
	sb.WriteByte('|')
	sb.WriteString(t.Name)
	sb.WriteByte('|')
	sb.WriteString(t.Sort)
	if t.Val != nil {
		sb.WriteByte('#')
		sb.WriteString(t.Val.Text(16))
	}
	if t.Op == "bconst" {
		if t.B {
			sb.WriteString("T")
		} else {
			sb.WriteString("F")
		}
	}
	for _, a := range t.Args {
		fmt.Fprintf(&sb, ",%d", a.id)
	}
	for _, b := range t.Bound {
		fmt.Fprintf(&sb, ";%d", b.id)
	}
	for _, p := range t.Pats {
		sb.WriteString("/")
		for _, a := range p {
			fmt.Fprintf(&sb, ",%d", a.id)
		}
	}
	k := sb.String()
	if x, ok := termTable[k]; ok {
		return x
	}
	termSeq++
	t.id = termSeq
	termTable[k] = t
	return t
}

var (
	TTrue  = intern(&Term{Op: "bconst", Sort: SBool, B: true})
	TFalse = intern(&Term{Op: "bconst", Sort: SBool, B: false})
)

func Bool(b bool) *Term {
	if b {
		return TTrue
	}
	return TFalse
}

func Var(name, sort string) *Term { return intern(&Term{Op: "var", Name: name, Sort: sort}) }

var freshCtr = map[string]int{}

func Fresh(hint, sort string) *Term {
	hint = sanitize(hint)
	freshCtr[hint]++
	return Var(fmt.Sprintf("%s!%d", hint, freshCtr[hint]), sort)
}

func sanitize(s string) string {
	var sb strings.Builder
	for _, c := range s {
		if c >= 'a' && c <= 'z' || c >= 'A' && c <= 'Z' || c >= '0' && c <= '9' || c == '_' || c == '.' {
			sb.WriteRune(c)
		} else {
			sb.WriteByte('_')
		}
	}
	if sb.Len() == 0 {
		return "x"
	}
	return sb.String()
}

// App is an application of an uninterpreted (or prelude-defined) function.
func App(name, sort string, args ...*Term) *Term {
	return intern(&Term{Op: "app", Name: name, Sort: sort, Args: args})
}

func BV(w int, v int64) *Term { return BVBig(w, big.NewInt(v)) }
func BVU(w int, v uint64) *Term {
	return BVBig(w, new(big.Int).SetUint64(v))
}
func BVBig(w int, v *big.Int) *Term {
	m := new(big.Int).Lsh(big.NewInt(1), uint(w))
	x := new(big.Int).Mod(v, m)
	return intern(&Term{Op: "const", Sort: SBV(w), Val: x})
}

func (t *Term) IsConst() bool { return t.Op == "const" || t.Op == "bconst" }
func (t *Term) IsTrue() bool  { return t == TTrue }
func (t *Term) IsFalse() bool { return t == TFalse }
func (t *Term) Width() int    { return bvWidth(t.Sort) }
func (t *Term) U64() (uint64, bool) {
	if t.Op == "const" && t.Val.IsUint64() {
		return t.Val.Uint64(), true
	}
	return 0, false
}

func signedVal(t *Term) *big.Int {
	w := t.Width()
	v := new(big.Int).Set(t.Val)
	if v.Bit(w-1) == 1 {
		v.Sub(v, new(big.Int).Lsh(big.NewInt(1), uint(w)))
	}
	return v
}

func Not(a *Term) *Term {
	if a == TTrue {
		return TFalse
	}
	if a == TFalse {
		return TTrue
	}
	if a.Op == "not" {
		return a.Args[0]
	}
	return intern(&Term{Op: "not", Sort: SBool, Args: []*Term{a}})
}

func And(as ...*Term) *Term {
	var out []*Term
	seen := map[int]bool{}
	for _, a := range as {
		if a == TFalse {
			return TFalse
		}
		if a == TTrue {
			continue
		}
		if a.Op == "and" {
			for _, b := range a.Args {
				if !seen[b.id] {
					seen[b.id] = true
					out = append(out, b)
				}
			}
			continue
		}
		if !seen[a.id] {
			seen[a.id] = true
			out = append(out, a)
		}
	}
	for _, a := range out {
		if seen[Not(a).id] && Not(a) != a {
			if a.Op != "not" { // a and (not a) both present
				return TFalse
			}
		}
	}
	if len(out) == 0 {
		return TTrue
	}
	if len(out) == 1 {
		return out[0]
	}
	return intern(&Term{Op: "and", Sort: SBool, Args: out})
}

func Or(as ...*Term) *Term {
	var out []*Term
	seen := map[int]bool{}
	for _, a := range as {
		if a == TTrue {
			return TTrue
		}
		if a == TFalse {
			continue
		}
		if a.Op == "or" {
			for _, b := range a.Args {
				if !seen[b.id] {
					seen[b.id] = true
					out = append(out, b)
				}
			}
			continue
		}
		if !seen[a.id] {
			seen[a.id] = true
			out = append(out, a)
		}
	}
	if len(out) == 0 {
		return TFalse
	}
	if len(out) == 1 {
		return out[0]
	}
	return intern(&Term{Op: "or", Sort: SBool, Args: out})
}

func Implies(a, b *Term) *Term {
	if a == TTrue {
		return b
	}
	if a == TFalse || b == TTrue {
		return TTrue
	}
	if b == TFalse {
		return Not(a)
	}
	return intern(&Term{Op: "=>", Sort: SBool, Args: []*Term{a, b}})
}

func Iff(a, b *Term) *Term { return Eq(a, b) }

func Ite(c, a, b *Term) *Term {
	if c == TTrue {
		return a
	}
	if c == TFalse {
		return b
	}
	if a == b {
		return a
	}
	if a.Sort != b.Sort {
		panic(fmt.Sprintf("ite sort mismatch %s vs %s", a.Sort, b.Sort))
	}
	if a.Sort == SBool {
		if a == TTrue && b == TFalse {
			return c
		}
		if a == TFalse && b == TTrue {
			return Not(c)
		}
	}
	return intern(&Term{Op: "ite", Sort: a.Sort, Args: []*Term{c, a, b}})
}

func Eq(a, b *Term) *Term {
	if a.Sort != b.Sort {
		panic(fmt.Sprintf("eq sort mismatch %s vs %s: %s / %s", a.Sort, b.Sort, a, b))
	}
	if a == b {
		return TTrue
	}
	if a.Op == "const" && b.Op == "const" {
		return Bool(a.Val.Cmp(b.Val) == 0)
	}
	if a.Op == "bconst" {
		if a.B {
			return b
		}
		return Not(b)
	}
	if b.Op == "bconst" {
		if b.B {
			return a
		}
		return Not(a)
	}
	// x + c1 = x + c2 with distinct constants; x + c = x with c != 0
	if a.Op == "bvadd" && b.Op == "bvadd" && a.Args[0] == b.Args[0] && a.Args[1].Op == "const" && b.Args[1].Op == "const" {
		return Bool(a.Args[1].Val.Cmp(b.Args[1].Val) == 0)
	}
	if a.Op == "bvadd" && a.Args[0] == b && a.Args[1].Op == "const" {
		return Bool(a.Args[1].Val.Sign() == 0)
	}
	if b.Op == "bvadd" && b.Args[0] == a && b.Args[1].Op == "const" {
		return Bool(b.Args[1].Val.Sign() == 0)
	}
	// structural: mkb
	if a.Op == "mkb" && b.Op == "mkb" {
		l := Eq(a.Args[1], b.Args[1])
		if l == TFalse {
			return TFalse
		}
	}
	if a.id > b.id {
		a, b = b, a
	}
	return intern(&Term{Op: "=", Sort: SBool, Args: []*Term{a, b}})
}

func Neq(a, b *Term) *Term { return Not(Eq(a, b)) }

// ---- bit-vectors

func bvBin(op string, a, b *Term, f func(x, y *big.Int, w int) *big.Int) *Term {
	if a.Sort != b.Sort {
		panic(fmt.Sprintf("%s sort mismatch %s vs %s", op, a.Sort, b.Sort))
	}
	if a.Op == "const" && b.Op == "const" && f != nil {
		r := f(a.Val, b.Val, a.Width())
		if r != nil {
			return BVBig(a.Width(), r)
		}
	}
	return intern(&Term{Op: op, Sort: a.Sort, Args: []*Term{a, b}})
}

func BVAdd(a, b *Term) *Term {
	if a.Op == "const" && a.Val.Sign() == 0 {
		return b
	}
	if b.Op == "const" && b.Val.Sign() == 0 {
		return a
	}
	// (x + c1) + c2 -> x + (c1+c2)
	if b.Op == "const" && a.Op == "bvadd" && a.Args[1].Op == "const" {
		return BVAdd(a.Args[0], BVBig(a.Width(), new(big.Int).Add(a.Args[1].Val, b.Val)))
	}
	if a.Op == "const" && b.Op != "const" {
		a, b = b, a
	}
	return bvBin("bvadd", a, b, func(x, y *big.Int, w int) *big.Int { return new(big.Int).Add(x, y) })
}
func BVSub(a, b *Term) *Term {
	if b.Op == "const" && b.Val.Sign() == 0 {
		return a
	}
	if a == b {
		return BV(a.Width(), 0)
	}
	if b.Op == "const" {
		m := new(big.Int).Lsh(big.NewInt(1), uint(a.Width()))
		return BVAdd(a, BVBig(a.Width(), new(big.Int).Sub(m, b.Val)))
	}
	// (x + c) - x -> c
	if a.Op == "bvadd" && a.Args[0] == b {
		return a.Args[1]
	}
	return bvBin("bvsub", a, b, func(x, y *big.Int, w int) *big.Int { return new(big.Int).Sub(x, y) })
}
func BVMul(a, b *Term) *Term {
	if a.Op == "const" && b.Op != "const" {
		a, b = b, a
	}
	if b.Op == "const" && b.Val.Cmp(big.NewInt(1)) == 0 {
		return a
	}
	if b.Op == "const" && b.Val.Sign() == 0 {
		return b
	}
	// (x + c1) * c2 -> x*c2 + c1*c2 (modular arithmetic distributes)
	if b.Op == "const" && a.Op == "bvadd" && a.Args[1].Op == "const" {
		return BVAdd(BVMul(a.Args[0], b), BVBig(a.Width(), new(big.Int).Mul(a.Args[1].Val, b.Val)))
	}
	return bvBin("bvmul", a, b, func(x, y *big.Int, w int) *big.Int { return new(big.Int).Mul(x, y) })
}
func BVAndT(a, b *Term) *Term {
	return bvBin("bvand", a, b, func(x, y *big.Int, w int) *big.Int { return new(big.Int).And(x, y) })
}
func BVOrT(a, b *Term) *Term {
	return bvBin("bvor", a, b, func(x, y *big.Int, w int) *big.Int { return new(big.Int).Or(x, y) })
}
func BVXorT(a, b *Term) *Term {
	return bvBin("bvxor", a, b, func(x, y *big.Int, w int) *big.Int { return new(big.Int).Xor(x, y) })
}
func BVShl(a, b *Term) *Term {
	return bvBin("bvshl", a, b, func(x, y *big.Int, w int) *big.Int {
		if !y.IsUint64() || y.Uint64() >= uint64(w) {
			return big.NewInt(0)
		}
		return new(big.Int).Lsh(x, uint(y.Uint64()))
	})
}
func BVLshr(a, b *Term) *Term {
	return bvBin("bvlshr", a, b, func(x, y *big.Int, w int) *big.Int {
		if !y.IsUint64() || y.Uint64() >= uint64(w) {
			return big.NewInt(0)
		}
		return new(big.Int).Rsh(x, uint(y.Uint64()))
	})
}
func BVAshr(a, b *Term) *Term { return bvBin("bvashr", a, b, nil) }
func BVUdiv(a, b *Term) *Term {
	return bvBin("bvudiv", a, b, func(x, y *big.Int, w int) *big.Int {
		if y.Sign() == 0 {
			return nil
		}
		return new(big.Int).Div(x, y)
	})
}
func BVUrem(a, b *Term) *Term {
	return bvBin("bvurem", a, b, func(x, y *big.Int, w int) *big.Int {
		if y.Sign() == 0 {
			return nil
		}
		return new(big.Int).Mod(x, y)
	})
}
func BVSdiv(a, b *Term) *Term { return bvBin("bvsdiv", a, b, nil) }
func BVSrem(a, b *Term) *Term { return bvBin("bvsrem", a, b, nil) }
func BVNeg(a *Term) *Term     { return BVSub(BV(a.Width(), 0), a) }
func BVNot(a *Term) *Term {
	if a.Op == "const" {
		m := new(big.Int).Lsh(big.NewInt(1), uint(a.Width()))
		m.Sub(m, big.NewInt(1))
		return BVBig(a.Width(), new(big.Int).Xor(a.Val, m))
	}
	return intern(&Term{Op: "bvnot", Sort: a.Sort, Args: []*Term{a}})
}

func bvCmp(op string, a, b *Term, signed bool, f func(c int) bool) *Term {
	if a.Sort != b.Sort {
		panic(fmt.Sprintf("%s sort mismatch %s vs %s", op, a.Sort, b.Sort))
	}
	if a.Op == "const" && b.Op == "const" {
		if signed {
			return Bool(f(signedVal(a).Cmp(signedVal(b))))
		}
		return Bool(f(a.Val.Cmp(b.Val)))
	}
	if a == b {
		return Bool(f(0))
	}
	return intern(&Term{Op: op, Sort: SBool, Args: []*Term{a, b}})
}
func BVUlt(a, b *Term) *Term {
	if b.Op == "const" && b.Val.Sign() == 0 {
		return TFalse
	}
	return bvCmp("bvult", a, b, false, func(c int) bool { return c < 0 })
}
func BVUle(a, b *Term) *Term {
	if a.Op == "const" && a.Val.Sign() == 0 {
		return TTrue
	}
	return bvCmp("bvule", a, b, false, func(c int) bool { return c <= 0 })
}
func BVUgt(a, b *Term) *Term { return BVUlt(b, a) }
func BVUge(a, b *Term) *Term { return BVUle(b, a) }
func BVSlt(a, b *Term) *Term { return bvCmp("bvslt", a, b, true, func(c int) bool { return c < 0 }) }
func BVSle(a, b *Term) *Term { return bvCmp("bvsle", a, b, true, func(c int) bool { return c <= 0 }) }
func BVSgt(a, b *Term) *Term { return BVSlt(b, a) }
func BVSge(a, b *Term) *Term { return BVSle(b, a) }

func Extract(hi, lo int, a *Term) *Term {
	w := hi - lo + 1
	if w == a.Width() {
		return a
	}
	if a.Op == "const" {
		v := new(big.Int).Rsh(a.Val, uint(lo))
		return BVBig(w, v)
	}
	if a.Op == "zero_extend" && hi < a.Args[0].Width() {
		return Extract(hi, lo, a.Args[0])
	}
	if a.Op == "concat" {
		lw := a.Args[1].Width()
		if hi < lw {
			return Extract(hi, lo, a.Args[1])
		}
		if lo >= lw {
			return Extract(hi-lw, lo-lw, a.Args[0])
		}
	}
	return intern(&Term{Op: "extract", Name: fmt.Sprintf("(_ extract %d %d)", hi, lo), Sort: SBV(w), Args: []*Term{a}})
}
func Concat(a, b *Term) *Term {
	if a.Op == "const" && b.Op == "const" {
		v := new(big.Int).Lsh(a.Val, uint(b.Width()))
		v.Or(v, b.Val)
		return BVBig(a.Width()+b.Width(), v)
	}
	return intern(&Term{Op: "concat", Sort: SBV(a.Width() + b.Width()), Args: []*Term{a, b}})
}
func ZeroExt(to int, a *Term) *Term {
	k := to - a.Width()
	if k == 0 {
		return a
	}
	if k < 0 {
		return Extract(to-1, 0, a)
	}
	if a.Op == "const" {
		return BVBig(to, a.Val)
	}
	return intern(&Term{Op: "zero_extend", Name: fmt.Sprintf("(_ zero_extend %d)", k), Sort: SBV(to), Args: []*Term{a}})
}
func SignExt(to int, a *Term) *Term {
	k := to - a.Width()
	if k == 0 {
		return a
	}
	if k < 0 {
		return Extract(to-1, 0, a)
	}
	if a.Op == "const" {
		return BVBig(to, signedVal(a))
	}
	return intern(&Term{Op: "sign_extend", Name: fmt.Sprintf("(_ sign_extend %d)", k), Sort: SBV(to), Args: []*Term{a}})
}

// ---- arrays

func ConstArr(sort string, def *Term) *Term {
	return intern(&Term{Op: "constarr", Sort: sort, Args: []*Term{def}})
}

var ZeroArr = ConstArr(SArr, BV(8, 0))

func Select(a, i *Term) *Term {
	_, es := arraySorts(a.Sort)
	for {
		if a.Op == "store" {
			e := Eq(a.Args[1], i)
			if e == TTrue {
				return a.Args[2]
			}
			if e == TFalse {
				a = a.Args[0]
				continue
			}
		}
		break
	}
	if a.Op == "constarr" {
		return a.Args[0]
	}
	if a.Op == "barr" && a.Args[0].Op == "app" {
		b := a.Args[0]
		switch b.Name {
		case "snap":
			// defining axiom of snap, applied eagerly
			return Ite(BVUlt(i, b.Args[2]), Select(b.Args[0], BVAdd(b.Args[1], i)), BV(8, 0))
		case "cat":
			// defining axiom of cat for an index inside a constant-length prefix
			if la, ok := Blen(b.Args[0]).U64(); ok {
				if iv, ok := i.U64(); ok && iv < la {
					return Select(Barr(b.Args[0]), i)
				}
			}
		}
	}
	return intern(&Term{Op: "select", Sort: es, Args: []*Term{a, i}})
}

// RawSelect builds a select term without applying the eager rewrites (used to state instances of axioms).
func RawSelect(a, i *Term) *Term {
	_, es := arraySorts(a.Sort)
	return intern(&Term{Op: "select", Sort: es, Args: []*Term{a, i}})
}

func Store(a, i, v *Term) *Term {
	if a.Op == "store" && a.Args[1] == i {
		a = a.Args[0]
	}
	return intern(&Term{Op: "store", Sort: a.Sort, Args: []*Term{a, i, v}})
}

// ---- Bytes datatype

func MkBytes(arr, ln *Term) *Term {
	if arr.Op == "barr" && ln.Op == "blen" && arr.Args[0] == ln.Args[0] {
		return arr.Args[0]
	}
	return intern(&Term{Op: "mkb", Sort: SBytes, Args: []*Term{arr, ln}})
}
func Barr(b *Term) *Term {
	if b.Op == "mkb" {
		return b.Args[0]
	}
	if b.Op == "ite" {
		return Ite(b.Args[0], Barr(b.Args[1]), Barr(b.Args[2]))
	}
	return intern(&Term{Op: "barr", Sort: SArr, Args: []*Term{b}})
}
func Blen(b *Term) *Term {
	if b.Op == "mkb" {
		return b.Args[1]
	}
	if b.Op == "app" {
		switch b.Name {
		case "snap":
			return b.Args[2]
		case "moduleAddr", "addrOf":
			return BV(64, 20)
		case "keccak":
			return BV(64, 32)
		case "ecrecKey":
			return BV(64, 65)
		}
		if blenOfApp != nil {
			if n := blenOfApp(b.Name); n > 0 {
				return BV(64, int64(n))
			}
		}
	}
	if b.Op == "ite" {
		return Ite(b.Args[0], Blen(b.Args[1]), Blen(b.Args[2]))
	}
	return intern(&Term{Op: "blen", Sort: SBV(64), Args: []*Term{b}})
}

// BytesConst builds the canonical Bytes value of a Go string constant.
func BytesConst(s string) *Term {
	arr := ZeroArr
	for i := 0; i < len(s); i++ {
		if s[i] != 0 {
			arr = Store(arr, BV(64, int64(i)), BV(8, int64(s[i])))
		}
	}
	return MkBytes(arr, BV(64, int64(len(s))))
}

var EmptyBytes = BytesConst("")

// ---- quantifiers

func Forall(bound []*Term, body *Term, pats ...[]*Term) *Term {
	if body == TTrue {
		return TTrue
	}
	return intern(&Term{Op: "forall", Sort: SBool, Args: []*Term{body}, Bound: bound, Pats: pats})
}
func Exists(bound []*Term, body *Term, pats ...[]*Term) *Term {
	if body == TFalse {
		return TFalse
	}
	return intern(&Term{Op: "exists", Sort: SBool, Args: []*Term{body}, Bound: bound, Pats: pats})
}

// Subst replaces variables (by term identity) in t.
func Subst(t *Term, m map[*Term]*Term) *Term {
	cache := map[*Term]*Term{}
	var rec func(t *Term) *Term
	rec = func(t *Term) *Term {
		if r, ok := m[t]; ok {
			return r
		}
		if len(t.Args) == 0 {
			return t
		}
		if r, ok := cache[t]; ok {
			return r
		}
		args := make([]*Term, len(t.Args))
		changed := false
		for i, a := range t.Args {
			args[i] = rec(a)
			if args[i] != a {
				changed = true
			}
		}
		var r *Term
		if !changed && t.Op != "forall" && t.Op != "exists" {
			r = t
		} else {
			r = rebuild(t, args, rec)
		}
		cache[t] = r
		return r
	}
	return rec(t)
}

// blenOfApp gives the fixed result length of opaque spec functions declared bytes[N].
var blenOfApp func(name string) int

// rebuildApp lets the spec layer re-fold prelude functions (snap, cat) after substitution.
var rebuildApp func(name string, args []*Term) *Term

func rebuild(t *Term, args []*Term, rec func(*Term) *Term) *Term {
	switch t.Op {
	case "not":
		return Not(args[0])
	case "and":
		return And(args...)
	case "or":
		return Or(args...)
	case "=>":
		return Implies(args[0], args[1])
	case "ite":
		return Ite(args[0], args[1], args[2])
	case "=":
		return Eq(args[0], args[1])
	case "select":
		return Select(args[0], args[1])
	case "store":
		return Store(args[0], args[1], args[2])
	case "mkb":
		return MkBytes(args[0], args[1])
	case "barr":
		return Barr(args[0])
	case "blen":
		return Blen(args[0])
	case "bvadd":
		return BVAdd(args[0], args[1])
	case "bvsub":
		return BVSub(args[0], args[1])
	case "bvult":
		return BVUlt(args[0], args[1])
	case "bvule":
		return BVUle(args[0], args[1])
	case "bvslt":
		return BVSlt(args[0], args[1])
	case "bvsle":
		return BVSle(args[0], args[1])
	case "bvmul":
		return BVMul(args[0], args[1])
	case "bvand":
		return BVAndT(args[0], args[1])
	case "bvor":
		return BVOrT(args[0], args[1])
	case "bvxor":
		return BVXorT(args[0], args[1])
	case "bvshl":
		return BVShl(args[0], args[1])
	case "bvlshr":
		return BVLshr(args[0], args[1])
	case "bvudiv":
		return BVUdiv(args[0], args[1])
	case "bvurem":
		return BVUrem(args[0], args[1])
	case "bvnot":
		return BVNot(args[0])
	case "concat":
		return Concat(args[0], args[1])
	case "extract":
		var hi, lo int
		fmt.Sscanf(t.Name, "(_ extract %d %d)", &hi, &lo)
		return Extract(hi, lo, args[0])
	case "zero_extend":
		return ZeroExt(t.Width(), args[0])
	case "sign_extend":
		return SignExt(t.Width(), args[0])
	case "app":
		if rebuildApp != nil {
			if r := rebuildApp(t.Name, args); r != nil {
				return r
			}
		}
	case "forall", "exists":
		var pats [][]*Term
		for _, p := range t.Pats {
			var np []*Term
			for _, a := range p {
				np = append(np, rec(a))
			}
			pats = append(pats, np)
		}
		if t.Op == "forall" {
			return Forall(t.Bound, args[0], pats...)
		}
		return Exists(t.Bound, args[0], pats...)
	}
	return intern(&Term{Op: t.Op, Name: t.Name, Sort: t.Sort, Args: args, Val: t.Val, B: t.B})
}

// ---- printing

func (t *Term) String() string {
	var sb strings.Builder
	printTerm(&sb, t, nil)
	s := sb.String()
	if len(s) > 4000 {
		s = s[:4000] + "…"
	}
	return s
}

func printTerm(sb *strings.Builder, t *Term, names map[*Term]string) {
	if names != nil {
		if n, ok := names[t]; ok {
			sb.WriteString(n)
			return
		}
	}
	switch t.Op {
	case "bconst":
		if t.B {
			sb.WriteString("true")
		} else {
			sb.WriteString("false")
		}
	case "const":
		w := t.Width()
		if w%4 == 0 {
			fmt.Fprintf(sb, "#x%0*s", w/4, t.Val.Text(16))
		} else {
			fmt.Fprintf(sb, "#b%0*s", w, t.Val.Text(2))
		}
	case "var":
		sb.WriteString(smtSym(t.Name))
	case "app":
		if len(t.Args) == 0 {
			sb.WriteString(smtSym(t.Name))
			return
		}
		sb.WriteByte('(')
		sb.WriteString(smtSym(t.Name))
		for _, a := range t.Args {
			sb.WriteByte(' ')
			printTerm(sb, a, names)
		}
		sb.WriteByte(')')
	case "constarr":
		fmt.Fprintf(sb, "((as const %s) ", t.Sort)
		printTerm(sb, t.Args[0], names)
		sb.WriteByte(')')
	case "extract", "zero_extend", "sign_extend":
		sb.WriteByte('(')
		sb.WriteString(t.Name)
		sb.WriteByte(' ')
		printTerm(sb, t.Args[0], names)
		sb.WriteByte(')')
	case "forall", "exists":
		sb.WriteByte('(')
		sb.WriteString(t.Op)
		sb.WriteString(" (")
		for _, b := range t.Bound {
			fmt.Fprintf(sb, "(%s %s)", smtSym(b.Name), b.Sort)
		}
		sb.WriteString(") ")
		if len(t.Pats) > 0 {
			sb.WriteString("(! ")
		}
		printShared(sb, t.Args[0], names)
		for _, p := range t.Pats {
			sb.WriteString(" :pattern (")
			for i, a := range p {
				if i > 0 {
					sb.WriteByte(' ')
				}
				printTerm(sb, a, names)
			}
			sb.WriteString(")")
		}
		if len(t.Pats) > 0 {
			sb.WriteString(")")
		}
		sb.WriteByte(')')
	default:
		sb.WriteByte('(')
		sb.WriteString(t.Op)
		for _, a := range t.Args {
			sb.WriteByte(' ')
			printTerm(sb, a, names)
		}
		sb.WriteByte(')')
	}
}

func smtSym(s string) string {
	for _, c := range s {
		if !(c >= 'a' && c <= 'z' || c >= 'A' && c <= 'Z' || c >= '0' && c <= '9' || c == '_' || c == '.' || c == '!' || c == '$') {
			return "|" + s + "|"
		}
	}
	return s
}

// Script renders a satisfiability query for the conjunction of asserts.
// Shared sub-terms that contain no bound variables are named with define-fun.
type decl struct {
	name string
	args []string
	ret  string
}

func collect(ts []*Term) (vars []*Term, apps map[string]decl, order []*Term, hasBound map[*Term]bool) {
	apps = map[string]decl{}
	seen := map[*Term]bool{}
	hasBound = map[*Term]bool{}
	boundSet := map[*Term]int{}
	varSeen := map[*Term]bool{}
	var rec func(t *Term) bool
	rec = func(t *Term) bool {
		if t.Op == "var" {
			if boundSet[t] > 0 {
				return true
			}
			if !varSeen[t] {
				varSeen[t] = true
				vars = append(vars, t)
			}
			return false
		}
		if seen[t] {
			return hasBound[t]
		}
		for _, b := range t.Bound {
			boundSet[b]++
		}
		hb := false
		for _, a := range t.Args {
			if rec(a) {
				hb = true
			}
		}
		for _, p := range t.Pats {
			for _, a := range p {
				rec(a)
			}
		}
		for _, b := range t.Bound {
			boundSet[b]--
		}
		if t.Op == "forall" || t.Op == "exists" {
			// after binding, the quantifier itself is closed unless nested in another binder
			hb = false
			for _, a := range t.Args {
				if containsFreeBound(a, boundSet) {
					hb = true
				}
			}
		}
		if t.Op == "app" {
			var as []string
			for _, a := range t.Args {
				as = append(as, a.Sort)
			}
			apps[t.Name] = decl{t.Name, as, t.Sort}
		}
		// only cache closed terms (a term with bound vars may be revisited under other binders; fine to recompute)
		if !hb {
			seen[t] = true
			order = append(order, t)
		}
		hasBound[t] = hb
		return hb
	}
	for _, t := range ts {
		rec(t)
	}
	return
}

func containsFreeBound(t *Term, boundSet map[*Term]int) bool {
	found := false
	seen := map[*Term]bool{}
	var rec func(t *Term)
	rec = func(t *Term) {
		if found || seen[t] {
			return
		}
		seen[t] = true
		if t.Op == "var" && boundSet[t] > 0 {
			found = true
			return
		}
		for _, a := range t.Args {
			rec(a)
		}
	}
	rec(t)
	return found
}

const preludeDT = `(declare-datatypes ((Bytes 0)) (((mkb (barr (Array (_ BitVec 64) (_ BitVec 8))) (blen (_ BitVec 64))))))
(declare-sort Ext 0)
`

// Script builds the full SMT-LIB text. extraDecls is prelude text (function
// declarations and axioms) placed after the datatype declaration.
func Script(asserts []*Term, prelude string, getModelOf []*Term) string {
	vars, apps, order, _ := collect(append(append([]*Term{}, asserts...), getModelOf...))
	var sb strings.Builder
	sb.WriteString("(set-option :produce-models true)\n(set-logic ALL)\n")
	sb.WriteString(preludeDT)
	sort.Slice(vars, func(i, j int) bool { return vars[i].Name < vars[j].Name })
	predeclared := preludeDeclared(prelude)
	for _, v := range vars {
		if predeclared[v.Name] {
			continue
		}
		fmt.Fprintf(&sb, "(declare-fun %s () %s)\n", smtSym(v.Name), v.Sort)
	}
	var an []string
	for n := range apps {
		an = append(an, n)
	}
	sort.Strings(an)
	for _, n := range an {
		if predeclared[n] {
			continue
		}
		d := apps[n]
		fmt.Fprintf(&sb, "(declare-fun %s (%s) %s)\n", smtSym(d.name), strings.Join(d.args, " "), d.ret)
	}
	sb.WriteString(prelude)
	// name shared closed compound terms
	refc := map[*Term]int{}
	for _, t := range order {
		for _, a := range t.Args {
			refc[a]++
		}
	}
	names := map[*Term]string{}
	for _, t := range order {
		if len(t.Args) == 0 || t.Op == "forall" || t.Op == "exists" {
			continue
		}
		if refc[t] < 2 && t.Op != "store" {
			continue
		}
		var b strings.Builder
		printTerm(&b, t, names)
		nm := fmt.Sprintf("$t%d", t.id)
		fmt.Fprintf(&sb, "(define-fun %s () %s %s)\n", nm, t.Sort, b.String())
		names[t] = nm
	}
	for _, a := range asserts {
		sb.WriteString("(assert ")
		printTerm(&sb, a, names)
		sb.WriteString(")\n")
	}
	sb.WriteString("(check-sat)\n")
	if len(getModelOf) > 0 {
		sb.WriteString("(get-value (")
		for _, t := range getModelOf {
			printTerm(&sb, t, names)
			sb.WriteByte(' ')
		}
		sb.WriteString("))\n")
	}
	return sb.String()
}

func preludeDeclared(prelude string) map[string]bool {
	out := map[string]bool{}
	for _, line := range strings.Split(prelude, "\n") {
		line = strings.TrimSpace(line)
		for _, kw := range []string{"(declare-fun ", "(define-fun ", "(define-fun-rec "} {
			if strings.HasPrefix(line, kw) {
				rest := line[len(kw):]
				if i := strings.IndexAny(rest, " ("); i > 0 {
					out[strings.Trim(rest[:i], "|")] = true
				}
			}
		}
	}
	return out
}

// printShared prints a quantifier body, binding sub-terms that occur more than once (and are not already
// named globally) with nested lets so that the text stays linear in the size of the term DAG.
func printShared(sb *strings.Builder, body *Term, names map[*Term]string) {
	if names == nil {
		printTerm(sb, body, names)
		return
	}
	refc := map[*Term]int{}
	var order []*Term
	seen := map[*Term]bool{}
	var rec func(t *Term)
	rec = func(t *Term) {
		if _, ok := names[t]; ok {
			return
		}
		refc[t]++
		if seen[t] {
			return
		}
		seen[t] = true
		if t.Op == "forall" || t.Op == "exists" {
			// nested binder: its body is handled when it is printed
			return
		}
		for _, a := range t.Args {
			rec(a)
		}
		order = append(order, t)
	}
	rec(body)
	local := map[*Term]string{}
	for k, v := range names {
		local[k] = v
	}
	depth := 0
	for _, t := range order {
		if refc[t] < 2 || len(t.Args) == 0 || t == body {
			continue
		}
		var b strings.Builder
		printTerm(&b, t, local)
		nm := fmt.Sprintf("?l%d", t.id)
		fmt.Fprintf(sb, "(let ((%s %s)) ", nm, b.String())
		local[t] = nm
		depth++
	}
	printTerm(sb, body, local)
	for i := 0; i < depth; i++ {
		sb.WriteByte(')')
	}
}
