package main

// Loops are cut at their headers: on entry the invariants are proved (init), everything the loop can
// assign is havocked, the invariants are assumed and the body is executed once; on the back edge the
// invariants are proved again (preserved) and the path ends. Code after the loop therefore sees only
// the invariant and the negated guard. A loop without invariant clauses gets the invariant `true`.

import (
	"fmt"
	"go/types"
	"strings"

	"golang.org/x/tools/go/ssa"
)

func loopOrdinal(fn *ssa.Function, h *ssa.BasicBlock) int {
	n := 0
	for _, b := range fn.Blocks {
		if b == h {
			return n
		}
		if isLoopHeader(b) {
			n++
		}
	}
	return -1
}

// loopBoundName: the parameter or field whose length bounds the loop with header h (for i < len(x) / range x); "" if
// the guard has another shape.
func loopBoundName(h *ssa.BasicBlock) string {
	if len(h.Instrs) == 0 {
		return ""
	}
	iff, ok := h.Instrs[len(h.Instrs)-1].(*ssa.If)
	if !ok {
		return ""
	}
	bin, ok := iff.Cond.(*ssa.BinOp)
	if !ok {
		return ""
	}
	for _, side := range []ssa.Value{bin.Y, bin.X} {
		if call, ok := side.(*ssa.Call); ok {
			if b, ok := call.Call.Value.(*ssa.Builtin); ok && b.Name() == "len" {
				return valueSourceName(call.Call.Args[0], 0)
			}
		}
	}
	return ""
}

func valueSourceName(v ssa.Value, depth int) string {
	if depth > 6 {
		return ""
	}
	switch x := v.(type) {
	case *ssa.Parameter:
		return x.Name()
	case *ssa.FieldAddr:
		return x.X.Type().Underlying().(*types.Pointer).Elem().Underlying().(*types.Struct).Field(x.Field).Name()
	case *ssa.Field:
		return x.X.Type().Underlying().(*types.Struct).Field(x.Field).Name()
	case *ssa.UnOp:
		return valueSourceName(x.X, depth+1)
	case *ssa.ChangeType:
		return valueSourceName(x.X, depth+1)
	case *ssa.Alloc:
		return x.Comment
	}
	return ""
}

// contractLoop: the number the contract uses for the loop with header h. Positional (source order) unless the
// contract names the loops by their bound ("loop N over name") and exactly one loop has that bound.
func contractLoop(c *Contract, fn *ssa.Function, h *ssa.BasicBlock) int {
	ord := loopOrdinal(fn, h)
	if c == nil || len(c.LoopOver) == 0 {
		return ord
	}
	count := map[string]int{}
	for _, b := range fn.Blocks {
		if isLoopHeader(b) {
			count[loopBoundName(b)]++
		}
	}
	name := loopBoundName(h)
	named := map[string]bool{}
	for n, nm := range c.LoopOver {
		if count[nm] == 1 {
			named[nm] = true
			if nm == name {
				return n
			}
		}
	}
	// a loop that is not named keeps its position among the loops that are not named
	pos := 0
	for _, b := range fn.Blocks {
		if !isLoopHeader(b) {
			continue
		}
		if b == h {
			break
		}
		if !named[loopBoundName(b)] {
			pos++
		}
	}
	free := 0
	for n := 0; n < 64; n++ {
		if nm, ok := c.LoopOver[n]; ok && named[nm] {
			continue
		}
		if free == pos {
			return n
		}
		free++
	}
	return ord
}

// loopBody returns the blocks of the natural loop with header h.
func loopBody(h *ssa.BasicBlock) map[*ssa.BasicBlock]bool {
	body := map[*ssa.BasicBlock]bool{h: true}
	var work []*ssa.BasicBlock
	for _, p := range h.Preds {
		if h.Dominates(p) {
			work = append(work, p)
		}
	}
	for len(work) > 0 {
		b := work[len(work)-1]
		work = work[:len(work)-1]
		if body[b] {
			continue
		}
		body[b] = true
		work = append(work, b.Preds...)
	}
	return body
}

func (ex *Exec) loopCut(st *State, h *ssa.BasicBlock, prev *ssa.BasicBlock, k cont) bool {
	fr := st.top()
	fn := fr.Fn
	if fn != ex.top || ex.topC == nil {
		// a loop nobody wrote an invariant for: a pure scan loop has a canonical one
		if ex.scanLoopCut(st, h, prev, k) {
			return true
		}
		ex.oblige(st, "limit", fnName(ex.top)+"#tool-limit@loop-in-inlined-callee", nil, TFalse, "loop inside an uncontracted callee: "+fnName(fn))
		return true
	}
	ord := contractLoop(ex.topC, fn, h)
	var invs []*Clause
	for _, cl := range ex.topC.Clauses {
		if cl.Kind == "invariant" && cl.Loop == ord {
			invs = append(invs, cl)
		}
	}
	if len(invs) == 0 && ex.scanLoopCut(st, h, prev, k) {
		return true
	}
	backEdge := h.Dominates(prev)
	// bind phis for evaluation of the invariant in the arriving state
	idx := -1
	for j, p := range h.Preds {
		if p == prev {
			idx = j
		}
	}
	arrive := st
	for _, in := range h.Instrs {
		phi, ok := in.(*ssa.Phi)
		if !ok {
			break
		}
		arrive.top().Regs[phi] = ex.val(arrive, phi.Edges[idx])
	}
	invs = ex.chooseAlternatives(arrive, invs, h)
	phase := "init"
	if backEdge {
		phase = "preserved"
	}
	ex.checkInvariants(arrive, invs, ord, phase, h)
	if backEdge {
		return true
	}
	// first arrival: havoc what the loop may assign
	ex.havocLoop(st, h)
	// assume invariants
	ctx := &EvalCtx{ex: ex, pre: ex.topPre, post: st, vars: ex.topVars, bound: map[string]Value{}, fn: fn, loopHeader: h}
	for _, cl := range invs {
		t, err := ctx.EvalBool(cl.E)
		if err != nil {
			ex.oblige(st, "binding", ex.topC.Key+"#binding", cl.Props, TFalse, fmt.Sprintf("loop %d invariant[%s]: %v", ord, cl.Label, err))
			return true
		}
		st.assume(t)
		for _, s := range ctx.side {
			st.assume(s)
		}
		ctx.side = nil
	}
	if len(invs) == 0 {
		ex.note(st, "loop %d has no invariant: treated as invariant true (assigned variables havocked)", ord)
	}
	// continue after the phis
	start := 0
	for i, in := range h.Instrs {
		if _, ok := in.(*ssa.Phi); !ok {
			start = i
			break
		}
	}
	ex.pathTrace = append(append([]string(nil), ex.pathTrace...), fmt.Sprintf("loop%d", ord))
	if start == 0 {
		ex.resumeHeader = h
	}
	st.curLoop = h
	ex.runBlock(st, h, prev, start, k)
	return true
}

// chooseAlternatives: an invariant may come with alternatives, `invariant[label|alt] e`, for a loop that carries the
// same information in another variable (the previous signer as a key, or as an address). The first clause of a label
// whose expression binds to the code at hand is the one that is assumed and checked, under the plain label.
func (ex *Exec) chooseAlternatives(st *State, invs []*Clause, h *ssa.BasicBlock) []*Clause {
	base := func(l string) string {
		if i := strings.Index(l, "|"); i >= 0 {
			return l[:i]
		}
		return l
	}
	hasAlt := false
	for _, cl := range invs {
		if strings.Contains(cl.Label, "|") {
			hasAlt = true
		}
	}
	if !hasAlt {
		return invs
	}
	var out []*Clause
	done := map[string]bool{}
	for _, cl := range invs {
		b := base(cl.Label)
		if done[b] {
			continue
		}
		var group []*Clause
		for _, c2 := range invs {
			if base(c2.Label) == b {
				group = append(group, c2)
			}
		}
		chosen := group[0]
		if len(group) > 1 {
			ctx := &EvalCtx{ex: ex, pre: ex.topPre, post: st, vars: ex.topVars, bound: map[string]Value{}, fn: st.top().Fn, loopHeader: h}
			for _, g := range group {
				if _, err := ctx.EvalBool(g.E); err == nil {
					chosen = g
					break
				}
				ctx.side = nil
			}
		}
		cp := *chosen
		cp.Label = b
		out = append(out, &cp)
		done[b] = true
	}
	return out
}

func (ex *Exec) checkInvariants(st *State, invs []*Clause, ord int, phase string, h *ssa.BasicBlock) {
	ctx := &EvalCtx{ex: ex, pre: ex.topPre, post: st, vars: ex.topVars, bound: map[string]Value{}, fn: st.top().Fn, loopHeader: h}
	for _, cl := range invs {
		if !relevant(cl, ex.prop) {
			continue
		}
		t, err := ctx.EvalBool(cl.E)
		if err != nil {
			ex.oblige(st, "binding", ex.topC.Key+"#binding", cl.Props, TFalse, fmt.Sprintf("loop %d invariant[%s]: %v", ord, cl.Label, err))
			continue
		}
		stq := st
		if len(ctx.side) > 0 {
			stq = st.clone()
			for _, s := range ctx.side {
				stq.assume(s)
			}
			ctx.side = nil
		}
		name := fmt.Sprintf("%s#loop%d.%s[%s]", ex.topC.Key, ord, phase, cl.Label)
		if phase == "preserved" {
			t = inductionStep(t)
		}
		ex.oblige(stq, "loop", name, cl.Props, t, cl.Text)
	}
}

// havocLoop gives fresh values to everything the loop with header h can assign.
func (ex *Exec) havocLoop(st *State, h *ssa.BasicBlock) {
	fr := st.top()
	body := loopBody(h)
	for _, in := range h.Instrs {
		phi, ok := in.(*ssa.Phi)
		if !ok {
			break
		}
		fr.Regs[phi] = ex.fresh(st, phi.Type(), "loop."+phi.Comment, 0)
	}
	havocAbs := false
	havocPrefixes := map[string]bool{}
	for b := range body {
		for _, in := range b.Instrs {
			switch x := in.(type) {
			case *ssa.Store:
				ex.havocTarget(st, x.Addr)
			case *ssa.MapUpdate:
				if m, ok := fr.Regs[x.Map].(VMap); ok && m.Cell > 0 {
					st.cells[m.Cell] = VMapVal{Set: Fresh("loop.map", SArray(SBytes, SBool))}
				}
			case ssa.CallInstruction:
				cc := x.Common()
				name := calleeName(cc)
				switch name {
				case "invoke:db.Iterator.Next":
					if it, ok := fr.Regs[cc.Value].(VIter); ok {
						st.cells[it.Cell] = VBV{Fresh("loop.iterpos", SBV(64)), false}
					}
				case "invoke:codec.BinaryCodec.MustUnmarshal", "invoke:codec.BinaryCodec.Unmarshal":
					if len(cc.Args) >= 2 {
						if mi, ok := cc.Args[1].(*ssa.MakeInterface); ok {
							ex.havocTarget(st, mi.X)
						}
					}
				case "(*math/big.Int).FillBytes", "(encoding/binary.bigEndian).PutUint32", "(encoding/binary.bigEndian).PutUint64", "builtin:copy":
					for _, a := range cc.Args {
						if v, ok := fr.Regs[a].(VSlice); ok && v.Obj >= 0 {
							st.heap[v.Obj] = Fresh("loop.heap", SArr)
						}
					}
				}
				if fn := cc.StaticCallee(); fn != nil && isRepoFn(fn) {
					if c, ok := ex.contracts[fnName(fn)]; ok {
						for _, cl := range c.byKind("modifies") {
							for _, m := range cl.Mods {
								// only the components the callee's frame names can change
								if p := modPrefix(m); p != "" {
									havocPrefixes[p] = true
								} else {
									havocAbs = true
								}
							}
						}
						for _, cl := range c.byKind("assigns") {
							for _, m := range cl.Mods {
								for i, pn := range c.Params {
									if m.Op == "ident" && m.Name == pn {
										off := 0
										if fn.Signature.Recv() != nil {
											off = 1
										}
										if v, ok := fr.Regs[cc.Args[off+i]].(VSlice); ok && v.Obj >= 0 {
											st.heap[v.Obj] = Fresh("loop.heap", SArr)
										}
									}
								}
							}
						}
					} else {
						// uncontracted repo callee: conservatively forget the abstract state
						havocAbs = true
					}
				}
				if name == "(cosmossdk.io/store/prefix.Store).Set" || name == "(cosmossdk.io/store/prefix.Store).Delete" || name == "invoke:types.KVStore.Set" || name == "invoke:types.KVStore.Delete" {
					st.rawHas = Fresh("loop.rawHas", SArray(SBytes, SBool))
					st.rawVal = Fresh("loop.rawVal", SArray(SBytes, SBytes))
					for p := range st.cnt {
						st.cnt[p] = Fresh("loop.cnt", SBV(64))
					}
				}
			}
		}
	}
	for i := range comps {
		hit := havocAbs
		for p := range havocPrefixes {
			if comps[i].Name == p || strings.HasPrefix(comps[i].Name, p+".") {
				hit = true
			}
		}
		if hit {
			st.abs[comps[i].Name] = Fresh("loop."+comps[i].Name, comps[i].arraySort())
		}
	}
}

// havocTarget forgets the memory an address expression may point to.
func (ex *Exec) havocTarget(st *State, addr ssa.Value) {
	fr := st.top()
	switch a := addr.(type) {
	case *ssa.Alloc:
		if p, ok := fr.Regs[a].(VPtr); ok && p.Cell > 0 {
			et := a.Type().(*types.Pointer).Elem()
			if classify(et) == kByteArr {
				if ba, ok := st.cells[p.Cell].(VByteArr); ok {
					st.heap[ba.Obj] = Fresh("loop.heap", SArr)
				}
				return
			}
			st.cells[p.Cell] = ex.fresh(st, et, "loop."+a.Comment, 0)
		}
		// an Alloc executed inside the loop body has no register yet: nothing to forget
	case *ssa.FieldAddr:
		ex.havocTarget(st, a.X)
	case *ssa.IndexAddr:
		if v, ok := fr.Regs[a.X]; ok {
			if s, ok := v.(VSlice); ok && s.Obj >= 0 {
				st.heap[s.Obj] = Fresh("loop.heap", SArr)
				return
			}
		}
		ex.havocTarget(st, a.X)
	case *ssa.Slice:
		ex.havocTarget(st, a.X)
	case *ssa.Parameter:
		if v, ok := fr.Regs[a]; ok {
			switch s := v.(type) {
			case VSlice:
				if s.Obj >= 0 {
					st.heap[s.Obj] = Fresh("loop.heap", SArr)
				}
			case VPtr:
				if s.Cell > 0 {
					st.cells[s.Cell] = ex.fresh(st, a.Type().(*types.Pointer).Elem(), "loop.param", 0)
				}
			}
		}
	case *ssa.Global:
		c := ex.globalCell(st, a)
		st.cells[c] = ex.fresh(st, a.Type().(*types.Pointer).Elem(), "loop.global", 0)
	case *ssa.FreeVar:
		if v, ok := fr.Regs[a].(VPtr); ok && v.Cell > 0 {
			st.cells[v.Cell] = ex.fresh(st, a.Type().(*types.Pointer).Elem(), "loop.freevar", 0)
		}
	case *ssa.Phi, *ssa.UnOp, *ssa.Call, *ssa.Extract:
		// pointer of unknown provenance: give up precisely here
		if v, ok := fr.Regs[addr]; ok {
			if s, ok := v.(VSlice); ok && s.Obj >= 0 {
				st.heap[s.Obj] = Fresh("loop.heap", SArr)
			}
		}
	}
}

// inductionStep: a preserved-invariant goal of the shape  forall q :: ... && q < V+1 ==> P(q)  is proved by
// its new instance P(V): the instances q < V are the invariant assumed at the loop head (it is in the path
// condition with bound V), and q < V+1 implies q < V or q = V in modular arithmetic. Any other shape is
// returned unchanged.
func inductionStep(t *Term) *Term {
	if t.Op == "and" {
		args := make([]*Term, len(t.Args))
		for i, a := range t.Args {
			args[i] = inductionStep(a)
		}
		return And(args...)
	}
	if t.Op != "forall" || len(t.Bound) != 1 {
		return t
	}
	q := t.Bound[0]
	body := t.Args[0]
	if body.Op != "=>" {
		return t
	}
	ante := body.Args[0]
	conj := []*Term{ante}
	if ante.Op == "and" {
		conj = ante.Args
	}
	for _, c := range conj {
		if c.Op == "bvult" && c.Args[0] == q {
			u := c.Args[1]
			if u.Op == "bvadd" && u.Args[1].Op == "const" && u.Args[1].Val.Cmp(bigOne) == 0 && !occurs(q, u) {
				v := u.Args[0]
				return Subst(body, map[*Term]*Term{q: v})
			}
		}
	}
	return t
}

// modPrefix: the state prefix named by a modifies target (st.a.b[k] -> "a.b"); "" for the whole state.
func modPrefix(e *Expr) string {
	switch e.Op {
	case "ident":
		return ""
	case "field":
		b := modPrefix(e.Args[0])
		if b == "" {
			if e.Args[0].Op == "ident" && e.Args[0].Name == "st" {
				return e.Name
			}
			return ""
		}
		return b + "." + e.Name
	case "index":
		return modPrefix(e.Args[0])
	}
	return ""
}

// ---- pure scan loops
//
// A loop whose only loop-carried variable is a counter stepping by one, and whose body neither writes memory
// nor calls anything (for _, b := range bz { if b != 0 { return false } }), needs no written invariant: iteration
// number i is reached exactly when every earlier iteration q went round again, and whether iteration q goes
// round again is a function cont(q) of q and of values the loop does not change. The canonical invariant
//     idx0 <= i  &&  forall q :: idx0 <= q < i ==> cont(q)
// holds by that argument (nothing to prove), so the loop is cut with it assumed. cont is obtained by running
// the loop once, symbolically, at the bound variable q.

// library functions whose L0 model is a function of the arguments and touches no state
var scanPureCallees = map[string]bool{
	"bytes.Equal": true, "bytes.Compare": true, "github.com/ethereum/go-ethereum/common.FromHex": true,
	"strings.ToLower": true, "strings.EqualFold": true, "strings.HasPrefix": true, "strings.TrimPrefix": true,
}

type scanProbe struct {
	h     *ssa.BasicBlock
	body  map[*ssa.BasicBlock]bool
	base  int
	cont  []*Term
	exits int
	bad   bool
}

// scanShape checks the syntactic side conditions and returns the counter phi.
func scanShape(h *ssa.BasicBlock) *ssa.Phi {
	var phi *ssa.Phi
	for _, in := range h.Instrs {
		if p, ok := in.(*ssa.Phi); ok {
			if phi != nil {
				return nil // a second loop-carried variable (an accumulator)
			}
			phi = p
		}
	}
	if phi == nil || len(phi.Edges) != 2 {
		return nil
	}
	if b, ok := phi.Type().Underlying().(*types.Basic); !ok || b.Info()&types.IsInteger == 0 {
		return nil
	}
	body := loopBody(h)
	// the back-edge value is phi + 1
	step := false
	for j, p := range h.Preds {
		if body[p] {
			if bo, ok := phi.Edges[j].(*ssa.BinOp); ok && bo.Op.String() == "+" && bo.X == ssa.Value(phi) {
				if c, ok := bo.Y.(*ssa.Const); ok && c.Value != nil && c.Value.ExactString() == "1" {
					step = true
				}
			}
		}
	}
	if !step {
		return nil
	}
	for b := range body {
		for _, in := range b.Instrs {
			switch x := in.(type) {
			case *ssa.Phi, *ssa.BinOp, *ssa.UnOp, *ssa.IndexAddr, *ssa.Index, *ssa.FieldAddr, *ssa.Field, *ssa.If, *ssa.Jump,
				*ssa.Convert, *ssa.ChangeType, *ssa.DebugRef, *ssa.Slice, *ssa.Extract:
				if u, ok := in.(*ssa.UnOp); ok && u.Op.String() == "<-" {
					return nil
				}
				if p, ok := in.(*ssa.Phi); ok && b != h {
					_ = p // a phi inside the body merges paths of one iteration: fine
				}
			case *ssa.Call:
				if bi, ok := x.Call.Value.(*ssa.Builtin); ok {
					if bi.Name() != "len" && bi.Name() != "cap" {
						return nil
					}
					break
				}
				// a library function with a pure L0 model (a function of its arguments: bytes.Equal, FromHex, ...)
				callee := x.Call.StaticCallee()
				if callee == nil || isRepoFn(callee) || !scanPureCallees[callee.String()] {
					return nil
				}
			case *ssa.MakeInterface, *ssa.TypeAssert:
				return nil
			case *ssa.Alloc:
				// an iteration-local variable (the per-iteration copy of a range value)
			case *ssa.Store:
				// only into an iteration-local variable
				root := x.Addr
				for {
					if fa, ok := root.(*ssa.FieldAddr); ok {
						root = fa.X
						continue
					}
					break
				}
				al, ok := root.(*ssa.Alloc)
				if !ok || !body[al.Block()] || al.Heap && false {
					return nil
				}
			default:
				return nil
			}
		}
	}
	return phi
}

func (ex *Exec) scanLoopCut(st *State, h *ssa.BasicBlock, prev *ssa.BasicBlock, k cont) bool {
	phi := scanShape(h)
	if phi == nil {
		return false
	}
	if h.Dominates(prev) {
		return true // back edge: this iteration went round again; covered by the cut at first arrival
	}
	fr := st.top()
	idx := -1
	for j, p := range h.Preds {
		if p == prev {
			idx = j
		}
	}
	v0, ok := ex.val(st, phi.Edges[idx]).(VBV)
	if !ok {
		return false
	}
	start := 0
	for i, in := range h.Instrs {
		if _, ok := in.(*ssa.Phi); !ok {
			start = i
			break
		}
	}
	// probe one iteration at the bound variable q
	ex.scanSeq++
	q := Var(fmt.Sprintf("q$scan%d", ex.scanSeq), v0.T.Sort)
	freshBefore := map[string]int{}
	for k, v := range freshCtr {
		freshBefore[k] = v
	}
	pst := st.clone()
	// quantify over the distance from the start value, so that an element access a[phi+1] of a range loop
	// (start value -1) reads a[q]: a shape the solvers can match instances against
	qphi := q
	if v0.T.Op == "const" {
		qphi = BVAdd(q, v0.T)
	}
	pst.top().Regs[phi] = VBV{qphi, v0.Signed}
	p := &scanProbe{h: h, body: loopBody(h), base: len(pst.pc)}
	saveProbe, saveTrace, saveCount := ex.probe, ex.pathTrace, ex.pathCount
	ex.probe = p
	func() {
		defer func() {
			if r := recover(); r != nil {
				p.bad = true
			}
		}()
		ex.runBlock(pst, h, prev, start, func(*State, []Value) { p.bad = true })
	}()
	ex.probe, ex.pathTrace, ex.pathCount = saveProbe, saveTrace, saveCount
	if p.bad || len(p.cont) == 0 {
		return false
	}
	cont := Or(p.cont...)
	// symbols the library models introduced while probing (a nil flag, a capacity) may differ from iteration to
	// iteration: they are bound existentially inside the quantifier, not shared by all iterations
	if vars, _, _, _ := collect([]*Term{cont}); len(vars) > 0 {
		sub := map[*Term]*Term{}
		var bound []*Term
		for _, v := range vars {
			k := strings.LastIndex(v.Name, "!")
			if k < 0 {
				continue
			}
			var n int
			fmt.Sscanf(v.Name[k+1:], "%d", &n)
			if n > freshBefore[v.Name[:k]] {
				b := Var("q$ex."+v.Name, v.Sort)
				sub[v] = b
				bound = append(bound, b)
			}
		}
		if len(bound) > 0 {
			cont = Exists(bound, Subst(cont, sub))
		}
	}
	i := Fresh("scan."+phi.Comment, v0.T.Sort)
	le, lt := BVUle, BVUlt
	if v0.Signed {
		le, lt = BVSle, BVSlt
	}
	st.assume(le(v0.T, i))
	one := BV(v0.T.Width(), 1)
	if v0.T.Op == "const" {
		zero := BV(v0.T.Width(), 0)
		n := BVSub(i, v0.T) // iterations completed
		st.assume(Forall([]*Term{q}, Implies(And(le(zero, q), lt(q, n)), cont)))
		// the instance the bounds reasoning needs (the iteration just before this one went round again), spelled out
		st.assume(Implies(Neq(i, v0.T), Subst(cont, map[*Term]*Term{q: BVSub(n, one)})))
	} else {
		st.assume(Forall([]*Term{q}, Implies(And(le(v0.T, q), lt(q, i)), cont)))
		st.assume(Implies(Neq(i, v0.T), Subst(cont, map[*Term]*Term{q: BVSub(i, one)})))
	}
	// the counter (and the number of finished iterations) as instantiation hints for quantified clauses about the loop
	if w := v0.T.Width(); w == 32 || w == 64 {
		st.assume(App(fmt.Sprintf("trig%d", w), SBool, i))
		st.assume(App(fmt.Sprintf("trig%d", w), SBool, BVAdd(i, one)))
		if v0.T.Op == "const" {
			st.assume(App(fmt.Sprintf("trig%d", w), SBool, BVSub(i, v0.T)))
		}
	}
	fr.Regs[phi] = VBV{i, v0.Signed}
	ex.note(st, "pure scan loop in %s cut with its canonical invariant", fnName(fr.Fn))
	ex.pathTrace = append(append([]string(nil), ex.pathTrace...), "scan")
	if start == 0 {
		ex.resumeHeader = h
	}
	ex.runBlock(st, h, prev, start, k)
	return true
}
