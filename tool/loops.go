package main

import "golang.org/x/tools/go/ssa"

// loopCut: placeholder until invariant-driven cutting is implemented (see loops section of DESIGN).
func (ex *Exec) loopCut(st *State, b *ssa.BasicBlock, prev *ssa.BasicBlock, k cont) bool {
	ex.oblige(st, "limit", fnName(ex.top)+"#tool-limit@loop", nil, TFalse, "loop without invariant support")
	return true
}
