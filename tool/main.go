package main

import (
	"path/filepath"
	"context"
	"flag"
	"fmt"
	"os"
	"sort"
	"strings"
	"sync"
	"time"

	"golang.org/x/tools/go/packages"
	"golang.org/x/tools/go/ssa"
	"golang.org/x/tools/go/ssa/ssautil"
)

type World struct {
	prog      *ssa.Program
	pkgs      map[string]*ssa.Package
	ppkgs     []*packages.Package
	contracts map[string]*Contract
	lemmas    []*Lemma
	fns       map[string]*ssa.Function // by fnName
	loadSecs  float64
	detached  []string // contracts of unexported helpers whose signature changed: the helper is inlined at its call sites instead
}

func repoDir() string {
	if d := os.Getenv("VERIF_REPO"); d != "" {
		return d
	}
	return "/repo"
}

var stepClauses []*Clause

func LoadWorld() (*World, error) {
	t0 := time.Now()
	stepClauses = nil
	cfg := &packages.Config{
		Mode: packages.NeedName | packages.NeedFiles | packages.NeedCompiledGoFiles | packages.NeedImports | packages.NeedTypes | packages.NeedTypesSizes | packages.NeedSyntax | packages.NeedTypesInfo,
		Dir:  repoDir(),
		Env:  append(os.Environ(), "GOWORK=off", "GOFLAGS=-mod=readonly -tags=verif", "GOPROXY=off", "GOSUMDB=off", "GOTOOLCHAIN=local"),
	}
	pkgs, err := packages.Load(cfg, "./x/cctp/keeper", "./x/cctp/types", "./x/cctp", "./x/cctp/client/cli")
	if err != nil {
		return nil, err
	}
	for _, p := range pkgs {
		for _, e := range p.Errors {
			return nil, fmt.Errorf("package %s: %v", p.PkgPath, e)
		}
	}
	prog, spkgs := ssautil.Packages(pkgs, ssa.InstantiateGenerics|ssa.GlobalDebug)
	prog.Build()
	w := &World{prog: prog, pkgs: map[string]*ssa.Package{}, ppkgs: pkgs, contracts: map[string]*Contract{}, fns: map[string]*ssa.Function{}}
	for _, sp := range spkgs {
		if sp != nil {
			w.pkgs[sp.Pkg.Path()] = sp
		}
	}
	for fn := range ssautil.AllFunctions(prog) {
		if isRepoFn(fn) && fn.Blocks != nil && fn.Synthetic == "" {
			w.fns[fnName(fn)] = fn
		}
	}
	for _, f := range FindContractFiles(repoDir()) {
		cf, err := ParseContractFile(f)
		if err != nil {
			return nil, err
		}
		for _, c := range cf.Contracts {
			if _, dup := w.contracts[c.Key]; dup {
				return nil, fmt.Errorf("duplicate contract for %s", c.Key)
			}
			w.contracts[c.Key] = c
		}
		w.lemmas = append(w.lemmas, cf.Lemmas...)
		stepClauses = append(stepClauses, cf.Steps...)
		for _, sf := range cf.SpecFuns {
			specFuns[sf.Name] = sf
			var n int
			if _, err := fmt.Sscanf(sf.Ret, "bytes[%d]", &n); err == nil && n > 0 {
				fixedLenApps[sf.Name] = n
			}
		}
	}
	w.loadSecs = time.Since(t0).Seconds()
	detachStaleContracts(w)
	for _, c := range w.contracts {
		other := false
		for _, p := range c.Serves {
			if p != "C18" && p != "C20" {
				other = true
			}
		}
		for _, cl := range c.Clauses {
			for _, p := range cl.Props {
				if p != "C18" && p != "C20" {
					other = true
				}
			}
		}
		if other {
			for _, cl := range c.Clauses {
				if len(cl.Props) == 0 {
					cl.SkipSweep = true
				}
			}
		}
		if len(c.Serves) > 0 {
			for _, cl := range c.Clauses {
				if len(cl.Props) == 0 {
					cl.OnlyUnder = c.Serves
				}
			}
		}
	}
	return w, nil
}

type retryItem struct {
	o    *Obligation
	text string
}

var (
	retry   []retryItem
	retryMu sync.Mutex
)

// discharge runs the solver on every obligation that is not syntactically decided.
func discharge(obls []*Obligation, timeoutMs int) {
	var wg sync.WaitGroup
	var coverLater []func()
	for _, o := range obls {
		if o.Res.Status != "" {
			continue
		}
		if o.rawText != "" {
			o := o
			wg.Add(1)
			go func() {
				defer wg.Done()
				o.Res = solveCached(o.rawText, timeoutMs)
			}()
			continue
		}
		if o.Kind == "cover" {
			o := o
			// terms are built on this goroutine only (the term table is not concurrent); the first paths are solved in
			// parallel with everything else, the rare remainder afterwards
			coverText := func(pc []*Term) string {
				as := append(append([]*Term{}, pc...), canonFacts(pc)...)
				used := usedSymbols(as)
				for _, w := range o.Without {
					delete(used, w)
				}
				return Script(as, buildPrelude(used), nil)
			}
			t := 1500
			if timeoutMs < t {
				t = timeoutMs
			}
			solveCover := func(text string) bool {
				coverSem <- struct{}{}
				st, _, secs := runOne(context.Background(), solverSpecs[0], writeQuery(text), t)
				<-coverSem
				if st != "unsat" {
					// sat, or not refuted within the time: the path is not contradictory as far as the solver can tell
					o.Res = SolverResult{Status: "unsat", Solver: "cover:" + st, Seconds: secs}
					return true
				}
				return false
			}
			var first []string
			for i := 0; i < len(o.coverPaths) && i < 3; i++ {
				first = append(first, coverText(o.coverPaths[i]))
			}
			o.Res = SolverResult{Status: "sat", Solver: "cover"}
			wg.Add(1)
			go func() {
				defer wg.Done()
				for _, text := range first {
					if solveCover(text) {
						return
					}
				}
			}()
			if len(o.coverPaths) > 3 {
				coverLater = append(coverLater, func() {
					if o.Res.Status == "unsat" {
						return
					}
					for _, pc := range o.coverPaths[3:] {
						if solveCover(coverText(pc)) {
							return
						}
					}
				})
			}
			continue
		}
		if o.Goal == TFalse && len(o.Assumes) == 0 {
			o.Res = SolverResult{Status: "sat", Solver: "syntactic"}
			continue
		}
		o := o
		ctr := 0
		as, goal := propagate(o.Assumes, o.Goal)
		if goal == TTrue {
			o.Res = SolverResult{Status: "unsat", Solver: "propagation"}
			continue
		}
		ng := Not(extGoal(goal, true, &ctr))
		full := append(append([]*Term{}, as...), ng)
		full = append(full, canonFacts(full)...)
		// first try with the assumptions in the goal's cone of influence only (dropping assumptions is sound);
		// identical sliced queries (paths that differ in irrelevant branches) are solved once
		sliced := append(sliceAssumptions(as, ng), ng)
		sliced = append(sliced, canonFacts(sliced)...)
		asserts := sliced
		var modelTerms []*Term
		for _, in := range o.Inputs {
			if in.T.Sort == SBool || bvWidth(in.T.Sort) > 0 {
				modelTerms = append(modelTerms, in.T)
			}
		}
		used := usedSymbols(append(append([]*Term{}, asserts...), modelTerms...))
		for _, w := range o.Without {
			delete(used, w)
		}
		prelude := buildPrelude(used)
		text := Script(asserts, prelude, modelTerms)
		fullText := ""
		if len(full) != len(sliced) {
			used2 := usedSymbols(append(append([]*Term{}, full...), modelTerms...))
			for _, w := range o.Without {
				delete(used2, w)
			}
			fullText = Script(full, buildPrelude(used2), modelTerms)
		}
		wg.Add(1)
		go func() {
			defer wg.Done()
			if fullText != "" {
				o.Res = solveCachedQuick(text, timeoutMs, o.Name)
			} else {
				o.Res = solveCached(text, timeoutMs, o.Name)
			}
			if o.Res.Status != "unsat" && fullText != "" {
				// the slice may have dropped a contradiction that makes the path infeasible: retry unsliced
				o.Res = solveCached(fullText, timeoutMs, o.Name)
				text = fullText
			}
			if (o.Res.Status == "unknown" || o.Res.Status == "error") && o.Res.WallHit {
				// undecided because the wall clock ran out before the resource limit did: a loaded machine, worth
				// another try when nothing else is running. (Exhausting the resource limit is deterministic.)
				retryMu.Lock()
				retry = append(retry, retryItem{o, text})
				retryMu.Unlock()
			}
			if (o.Res.Status != "unsat" || o.Res.Seconds > 3) && os.Getenv("GOVC_KEEP") != "" {
				os.WriteFile(fmt.Sprintf("%s/%s.smt2", os.Getenv("GOVC_KEEP"), sanitize(o.Name)), []byte(text), 0o644)
			}
		}()
	}
	wg.Wait()
	for _, f := range coverLater {
		f()
	}
	// undecided queries are retried one at a time on an otherwise idle machine with twice the timeout:
	// a timeout caused by load must not turn into an alarm
	if len(retry) > 0 && len(retry) <= 6 {
		t0 := time.Now()
		for _, it := range retry {
			if time.Since(t0) > 90*time.Second {
				break // the retry phase as a whole is bounded: a tree that really fails must not take forever to say so
			}
			r := Solve(it.text, timeoutMs)
			if r.Status == "unsat" || r.Status == "sat" {
				r.Raw = "retry: " + r.Raw
				it.o.Res = r
			}
		}
	}
	retry = nil
}

func main() {
	if len(os.Args) < 2 {
		fmt.Println("usage: govc verify <fn>... | check <property> <tier>")
		os.Exit(2)
	}
	initScratch()
	code := 0
	func() {
		defer cleanupScratch()
		switch os.Args[1] {
		case "verify":
			code = cmdVerify(os.Args[2:])
		case "check":
			code = cmdCheck(os.Args[2:])
		case "list":
			code = cmdList()
		case "replay":
			code = cmdReplay(os.Args[2:])
		default:
			fmt.Println("unknown command")
			code = 2
		}
	}()
	os.Exit(code)
}

func cmdList() int {
	w, err := LoadWorld()
	if err != nil {
		fmt.Println("load:", err)
		return 2
	}
	var ks []string
	for k := range w.fns {
		ks = append(ks, k)
	}
	sort.Strings(ks)
	for _, k := range ks {
		c := ""
		if _, ok := w.contracts[k]; ok {
			c = " [contract]"
		}
		fmt.Println(k + c)
	}
	return 0
}

func cmdVerify(args []string) int {
	fs := flag.NewFlagSet("verify", flag.ExitOnError)
	timeout := fs.Int("t", 10000, "solver timeout ms")
	verbose := fs.Bool("v", false, "verbose")
	all := fs.String("all", "", "verify all contracted functions of a layer (L2, L3, all)")
	lem := fs.Bool("lemmas", false, "prove the lemmas of the contract files")
	fs.Parse(args)
	w, err := LoadWorld()
	if err != nil {
		fmt.Println("load:", err)
		return 2
	}
	ex := NewExec(w.prog, w.pkgs, w.contracts)
	ex.runInit()
	bad := 0
	keys := fs.Args()
	if *all != "" {
		keys = nil
		for k, c := range w.contracts {
			if c.Trusted || w.fns[k] == nil {
				continue
			}
			if *all == "all" || c.Layer == *all {
				keys = append(keys, k)
			}
		}
		sort.Strings(keys)
	}
	if *lem {
		ex.obls = nil
		for _, l := range w.lemmas {
			ex.VerifyLemma(l)
		}
		discharge(ex.obls, *timeout)
		for _, o := range ex.obls {
			st := "ok"
			if o.Res.Status != "unsat" {
				st = "FAIL(" + o.Res.Status + ")"
				bad++
			}
			fmt.Printf("  %-6s %s [%s %.2fs] %s\n", st, o.Name, o.Res.Solver, o.Res.Seconds, firstN(o.Note, 80))
			if o.Res.Status != "unsat" && *verbose {
				fmt.Println("     raw:", o.Res.Raw)
			}
		}
	}
	for _, key := range keys {
		fn := w.fns[key]
		c := w.contracts[key]
		if fn == nil || c == nil {
			fmt.Printf("%s: function or contract not found (fn=%v contract=%v)\n", key, fn != nil, c != nil)
			bad++
			continue
		}
		ex.obls = nil
		t0 := time.Now()
		ex.VerifyFunction(fn, c)
		gen := time.Since(t0)
		discharge(ex.obls, *timeout)
		byName := map[string][]*Obligation{}
		var names []string
		for _, o := range ex.obls {
			if _, ok := byName[o.Name]; !ok {
				names = append(names, o.Name)
			}
			byName[o.Name] = append(byName[o.Name], o)
		}
		fmt.Printf("== %s: %d obligation instances, %d names, gen %.2fs, total %.2fs\n", key, len(ex.obls), len(names), gen.Seconds(), time.Since(t0).Seconds())
		for _, n := range names {
			status := "ok"
			detail := ""
			for _, o := range byName[n] {
				if o.Res.Status != "unsat" {
					status = "FAIL(" + o.Res.Status + ")"
					detail = fmt.Sprintf(" path=%s note=%s %s", o.Path, o.Note, strings.TrimSpace(firstN(o.Res.Model, 600)))
					if *verbose {
						detail += "\n   goal: " + o.Goal.String()
					}
					bad++
					break
				}
			}
			maxS := 0.0
			for _, o := range byName[n] {
				if o.Res.Seconds > maxS {
					maxS = o.Res.Seconds
				}
			}
			if status != "ok" || *verbose || maxS > 2 {
				fmt.Printf("  %-6s %s (%d) max %.1fs%s\n", status, n, len(byName[n]), maxS, detail)
			}
		}
		for _, n := range ex.fnNotes[key] {
			fmt.Println("  note:", n)
		}
	}
	if bad > 0 {
		return 1
	}
	return 0
}

var (
	solveCache   = map[string]*cacheEntry{}
	solveCacheMu sync.Mutex
)

type cacheEntry struct {
	once sync.Once
	res  SolverResult
}

var coverSem = make(chan struct{}, 8)

func writeQuery(text string) string {
	querySeqMu.Lock()
	querySeq++
	n := querySeq
	querySeqMu.Unlock()
	file := filepath.Join(scratchDir, fmt.Sprintf("c%d.smt2", n))
	os.WriteFile(file, []byte(text), 0o644)
	return file
}

func solveCachedQuick(text string, timeoutMs int, hint string) SolverResult {
	solveCacheMu.Lock()
	e := solveCache["quick:"+text]
	if e == nil {
		e = &cacheEntry{}
		solveCache["quick:"+text] = e
	}
	solveCacheMu.Unlock()
	e.once.Do(func() { e.res = SolveSliced(text, timeoutMs, hint) })
	return e.res
}

func solveCached(text string, timeoutMs int, hint ...string) SolverResult {
	solveCacheMu.Lock()
	e := solveCache[text]
	if e == nil {
		e = &cacheEntry{}
		solveCache[text] = e
	}
	solveCacheMu.Unlock()
	h := ""
	if len(hint) > 0 {
		h = hint[0]
	}
	e.once.Do(func() { e.res = SolveHint(text, timeoutMs, h) })
	return e.res
}

// sliceAssumptions keeps the assumptions connected to the goal through shared free symbols.
func sliceAssumptions(as []*Term, goal *Term) []*Term {
	symsOf := func(t *Term) map[string]bool {
		out := map[string]bool{}
		seen := map[*Term]bool{}
		var rec func(t *Term)
		rec = func(t *Term) {
			if seen[t] {
				return
			}
			seen[t] = true
			switch t.Op {
			case "var":
				if !strings.HasPrefix(t.Name, "q$") {
					out["v:"+t.Name] = true
				}
			case "app":
				if !preludeSym[t.Name] {
					out["f:"+t.Name] = true
				}
			}
			for _, a := range t.Args {
				rec(a)
			}
		}
		rec(t)
		return out
	}
	cur := symsOf(goal)
	syms := make([]map[string]bool, len(as))
	for i, a := range as {
		syms[i] = symsOf(a)
	}
	keep := make([]bool, len(as))
	for changed := true; changed; {
		changed = false
		for i := range as {
			if keep[i] {
				continue
			}
			hit := len(syms[i]) == 0 // closed facts (about constants only) are kept
			for s := range syms[i] {
				if cur[s] {
					hit = true
					break
				}
			}
			if hit {
				keep[i] = true
				changed = true
				for s := range syms[i] {
					cur[s] = true
				}
			}
		}
	}
	var out []*Term
	for i, a := range as {
		if keep[i] {
			out = append(out, a)
		}
	}
	return out
}

// preludeSym: interpreted-by-axiom helper functions that would connect everything to everything.
var preludeSym = map[string]bool{"canon": true, "cat": true, "snap": true, "trig32": true, "trig64": true, "memcpy": true}

// detachStaleContracts: an unexported helper whose parameter or result list no longer matches its contract header
// (a refactoring added or removed a parameter) is verified in the context of its callers instead - it is inlined
// at its call sites like any uncontracted helper, which is exact - provided some function under contract still
// calls it. Its own clauses are then not checked (reported in the evidence); the callers' clauses still are.
func detachStaleContracts(w *World) {
	for k, c := range w.contracts {
		fn := w.fns[k]
		if fn == nil || fn.Parent() != nil || fn.Object() == nil || fn.Object().Exported() {
			continue
		}
		np := len(fn.Params)
		if fn.Signature.Recv() != nil {
			np--
		}
		if len(c.Params) == np && len(c.Results) == fn.Signature.Results().Len() {
			continue
		}
		called := false
		for k2 := range w.contracts {
			if k2 == k || w.fns[k2] == nil {
				continue
			}
			cs := map[string]bool{}
			contractedCallees(w, w.fns[k2], map[*ssa.Function]bool{}, cs)
			if cs[k] {
				called = true
				break
			}
		}
		if !called {
			continue
		}
		delete(w.contracts, k)
		w.detached = append(w.detached, fmt.Sprintf("%s: contract header names %d parameters / %d results, the function now has %d / %d; inlined at its call sites, its own clauses are not checked",
			k, len(c.Params), len(c.Results), np, fn.Signature.Results().Len()))
	}
	sort.Strings(w.detached)
}
