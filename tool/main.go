package main

import (
	"fmt"
	"os"
	"time"

	"golang.org/x/tools/go/packages"
	"golang.org/x/tools/go/ssa"
	"golang.org/x/tools/go/ssa/ssautil"
)

func main() {
	t0 := time.Now()
	cfg := &packages.Config{
		Mode: packages.NeedName | packages.NeedFiles | packages.NeedCompiledGoFiles | packages.NeedImports | packages.NeedTypes | packages.NeedTypesSizes | packages.NeedSyntax | packages.NeedTypesInfo,
		Dir:  "/repo",
		Env:  append(os.Environ(), "GOWORK=off", "GOFLAGS=-mod=readonly -tags=verif", "GOPROXY=off", "GOSUMDB=off", "GOTOOLCHAIN=local"),
	}
	pkgs, err := packages.Load(cfg, "./x/cctp/keeper", "./x/cctp/types", "./x/cctp", "./x/cctp/client/cli")
	if err != nil {
		panic(err)
	}
	for _, p := range pkgs {
		for _, e := range p.Errors {
			fmt.Println("ERR", e)
		}
	}
	prog, spkgs := ssautil.Packages(pkgs, ssa.InstantiateGenerics)
	prog.Build()
	fmt.Println(len(spkgs), time.Since(t0))
	for _, sp := range spkgs {
		if sp != nil && sp.Pkg.Name() == "keeper" {
			ms := prog.LookupMethod(sp.Type("msgServer").Type(), sp.Pkg, "UpdatePauser")
			ms.WriteTo(os.Stdout)
		}
	}
}
