package main

// Verifying one function against its contract: symbolic inputs, path exploration,
// postcondition / frame / log obligations at every return.

import (
	"fmt"
	"go/types"
	"sort"
	"strings"

	"golang.org/x/tools/go/ssa"
)

// runInit executes the package initialisers once to obtain the values of package-level variables.
func (ex *Exec) runInit() {
	ex.inInit = true
	defer func() { ex.inInit = false }()
	st := &State{cells: map[int]Value{}, heap: map[int]*Term{}, abs: map[string]*Term{}, cnt: map[string]*Term{}, loopSeen: map[*ssa.BasicBlock]int{}}
	initAbs(st, "init")
	var order []string
	for p := range ex.pkgs {
		order = append(order, p)
	}
	sort.Strings(order)
	// types first (keeper reads its globals)
	sort.SliceStable(order, func(i, j int) bool {
		return strings.HasSuffix(order[i], "/types") && !strings.HasSuffix(order[j], "/types")
	})
	for _, p := range order {
		pkg := ex.pkgs[p]
		fn := pkg.Func("init")
		if fn == nil || fn.Blocks == nil {
			continue
		}
		ex.top = fn
		var final *State
		ex.runFunc(st, fn, nil, func(s *State, res []Value) { final = s })
		if final != nil {
			st = final
			st.frames = nil
		}
	}
	ex.top = nil
	for _, c := range ex.globalCells {
		ex.globalVals[c] = st.cells[c]
	}
	// keep every heap object reachable from globals
	for id, arr := range st.heap {
		ex.globalHeap[id] = arr
	}
	// cells created during init that globals point to
	for id, v := range st.cells {
		if _, ok := ex.globalVals[id]; !ok {
			ex.globalVals[id] = v
		}
	}
	ex.obls = nil
	ex.fnNotes = map[string][]string{}
	ex.unmodelled = map[string]int{}
	ex.l0used = map[string]int{}
}

func (ex *Exec) newState(tag string) *State {
	st := &State{cells: map[int]Value{}, heap: map[int]*Term{}, abs: map[string]*Term{}, cnt: map[string]*Term{}, loopSeen: map[*ssa.BasicBlock]int{}}
	for c, v := range ex.globalVals {
		st.cells[c] = v
	}
	for o, a := range ex.globalHeap {
		st.heap[o] = a
	}
	initAbs(st, tag)
	st.assume(App("canon", SBool, Var("acctPrefix", SBytes)))
	st.assume(Neq(Blen(Var("acctPrefix", SBytes)), BV(64, 0)))
	st.assume(BVUle(Blen(Var("acctPrefix", SBytes)), BV(64, 83)))
	// abstract-state strings are canonical byte strings
	for _, c := range comps {
		if c.ValSort == SBytes && len(c.KeySorts) == 0 {
			st.assume(App("canon", SBool, st.abs[c.Name]))
			st.assume(BVUle(Blen(st.abs[c.Name]), maxLen))
		}
	}
	return st
}

// VerifyFunction generates all obligations of fn against contract c. An internal error of the generator on
// this function is reported as an undischarged obligation (the function is not verified), never swallowed.
func (ex *Exec) VerifyFunction(fn *ssa.Function, c *Contract) {
	defer func() {
		if r := recover(); r != nil {
			if _, isEval := r.(evalErr); isEval {
				panic(r)
			}
			msg := fmt.Sprint(r)
			ex.obls = append(ex.obls, &Obligation{Name: c.Key + "#tool-limit@internal-error", Kind: "limit", Props: propSet(allProps(c)), Fn: c.Key,
				Goal: TFalse, Note: "the VC generator cannot handle this function body: " + firstN(msg, 300), Res: SolverResult{Status: "unknown", Solver: "generator", Raw: msg}})
			ex.keepTopFrame = false
		}
	}()
	ex.verifyFunction(fn, c)
}

func (ex *Exec) verifyFunction(fn *ssa.Function, c *Contract) {
	ex.top = fn
	ex.topC = c
	ex.pathCount = 0
	ex.pathTrace = nil
	ex.mode = c.Layer
	if ex.mode != "L2" {
		ex.mode = "L3"
	}
	st := ex.newState("st0")
	var args []Value
	ex.inputs = nil
	for _, p := range fn.Params {
		v := ex.fresh(st, p.Type(), p.Name(), 0)
		for _, n := range c.Nullable {
			if pv, ok := v.(VPtr); ok && n == p.Name() {
				pv.NilT = Fresh(p.Name()+".isnil", SBool)
				v = pv
			}
		}
		args = append(args, v)
		ex.collectInputs(st, p.Name(), v)
	}
	vars, err := ex.bindContract(c, fn, args)
	if err != nil {
		ex.oblige(st, "binding", c.Key+"#binding", allProps(c), TFalse, err.Error())
		return
	}
	// a closure under contract: its captured variables are symbolic too, and named in the contract
	var fvVals []Value
	for _, fv := range fn.FreeVars {
		v := ex.fresh(st, fv.Type(), fv.Name(), 0)
		fvVals = append(fvVals, v)
		vars[fv.Name()] = v
	}
	// a captured variable the contract names that was renamed: fall back on its declared shape (local name type [#n])
	for name, d := range c.Locals {
		if _, ok := vars[name]; ok {
			continue
		}
		n := 0
		for i, fv := range fn.FreeVars {
			t := fv.Type()
			if pt, ok := t.(*types.Pointer); ok {
				t = pt.Elem()
			}
			if typeShort(t) != d.Type {
				continue
			}
			if n == d.N {
				vars[name] = fvVals[i]
				break
			}
			n++
		}
	}
	ex.topFreeVars = fvVals
	pre := st.clone()
	ctx0 := &EvalCtx{ex: ex, pre: pre, post: pre, vars: vars, bound: map[string]Value{}, fn: fn}
	for _, cl := range c.byKind("requires") {
		if ex.prop == "C20" && strings.Contains(cl.Label, "C20.") && isEntryPoint(fn, c) {
			// C20 quantifies over every input of an entry point: a precondition tagged C20 is a documented
			// gap, not an assumption, in the C20 run
			continue
		}
		t, err := ctx0.EvalBool(cl.E)
		if err != nil {
			ex.oblige(st, "binding", c.Key+"#binding", allProps(c), TFalse, "requires: "+err.Error())
			return
		}
		st.assume(t)
	}
	// `defines p(args) := e` unfolds a spec predicate for exactly these arguments (its definition, not an assumption
	// about the code)
	for _, cl := range c.byKind("defines") {
		t, err := ctx0.EvalBool(cl.E)
		if err != nil {
			ex.oblige(st, "binding", c.Key+"#binding", allProps(c), TFalse, "defines: "+err.Error())
			return
		}
		st.assume(t)
		for _, s := range ctx0.side {
			st.assume(s)
		}
		ctx0.side = nil
	}
	pre = st.clone()
	ex.topPre = pre
	ex.topVars = vars
	ex.topArgs = args
	nret := 0
	ex.keepTopFrame = true
	var coverPaths [][]*Term
	ex.runFunc(st, fn, args, func(post *State, res []Value) {
		nret++
		if len(coverPaths) < 40 {
			coverPaths = append(coverPaths, append([]*Term(nil), post.pc...))
		}
		ex.atReturn(fn, c, pre, post, vars, res)
	})
	ex.keepTopFrame = false
	// semantic vacuity guard: the assumptions (requires, prelude axioms, callee contracts, loop invariants) along at
	// least one return path must not be contradictory - from a contradiction every clause would "hold"
	if nret > 0 {
		ex.obls = append(ex.obls, &Obligation{Name: c.Key + "#cover@return", Kind: "cover", Props: propSet(allProps(c)), Fn: c.Key, Goal: TFalse,
			coverPaths: coverPaths, Without: c.Without,
			Note: "the facts assumed along every explored return path are contradictory (requires clauses, callee contracts or invariants exclude every execution): nothing is proved about this function"})
	}
	// vacuity guard: a function none of whose paths reaches a return proves nothing
	vac := &Obligation{Name: c.Key + "#reachable-return", Kind: "vacuity", Props: propSet(allProps(c)), Fn: c.Key, Goal: Bool(nret > 0),
		Note: "no return path could be explored (every path ends in an unsupported or rejected construct): the function is not verified"}
	if nret > 0 {
		vac.Res = SolverResult{Status: "unsat", Solver: "syntactic"}
	} else {
		vac.Res = SolverResult{Status: "unknown", Solver: "generator"}
	}
	ex.obls = append(ex.obls, vac)
}

func allProps(c *Contract) []string {
	seen := map[string]bool{}
	var out []string
	for _, cl := range c.Clauses {
		for _, p := range cl.Props {
			if !seen[p] {
				seen[p] = true
				out = append(out, p)
			}
		}
	}
	return out
}

func (ex *Exec) collectInputs(st *State, name string, v Value) {
	switch x := v.(type) {
	case VBV:
		ex.inputs = append(ex.inputs, namedTerm{name, x.T})
	case VBool:
		ex.inputs = append(ex.inputs, namedTerm{name, x.T})
	case VStr:
		ex.inputs = append(ex.inputs, namedTerm{name + ".len", Blen(x.T)})
	case VSlice:
		ex.inputs = append(ex.inputs, namedTerm{name + ".len", x.Len}, namedTerm{name + ".isnil", x.Nil})
	case VBig:
		ex.inputs = append(ex.inputs, namedTerm{name + ".isnil", x.Nil}, namedTerm{name + ".v", x.V})
	case VPtr:
		if x.Cell > 0 {
			ex.collectInputs(st, name, st.cells[x.Cell])
		}
	case VStruct:
		s := x.T.Underlying().(*types.Struct)
		for i := 0; i < s.NumFields() && i < len(x.F); i++ {
			ex.collectInputs(st, name+"."+s.Field(i).Name(), x.F[i])
		}
	}
}

func (ex *Exec) atReturn(fn *ssa.Function, c *Contract, pre, post *State, vars map[string]Value, res []Value) {
	v2 := map[string]Value{}
	for k, v := range vars {
		v2[k] = v
	}
	for i, n := range c.Results {
		v2[n] = res[i]
	}
	ctx := &EvalCtx{ex: ex, pre: pre, post: post, vars: v2, bound: map[string]Value{}, fn: fn}
	errIdx := -1
	for i, r := range res {
		if _, ok := r.(VErr); ok {
			errIdx = i
		}
	}
	okCond := TTrue
	if errIdx >= 0 {
		okCond = Not(res[errIdx].(VErr).Is)
	}
	emit := func(kind, label string, props []string, goal *Term, text string) {
		stq := post
		if len(ctx.side) > 0 {
			stq = post.clone()
			for _, s := range ctx.side {
				stq.assume(s)
			}
			ctx.side = nil
		}
		name := fmt.Sprintf("%s#%s[%s]", c.Key, kind, label)
		ex.oblige(stq, kind, name, props, goal, text)
	}
	for _, cl := range c.byKind("ensures") {
		if !relevant(cl, ex.prop) {
			continue
		}
		t, err := ctx.EvalBool(cl.E)
		if err != nil {
			ex.oblige(post, "binding", c.Key+"#binding", cl.Props, TFalse, fmt.Sprintf("ensures[%s]: %v", cl.Label, err))
			continue
		}
		emit("ensures", cl.Label, cl.Props, t, cl.Text)
	}
	for _, kind := range []string{"emits", "calls"} {
		for _, cl := range c.byKind(kind) {
			if !relevant(cl, ex.prop) {
				continue
			}
			ident := "events"
			if kind == "calls" {
				ident = "calls"
			}
			e := &Expr{Op: "binary", Name: "==", Args: []*Expr{{Op: "ident", Name: ident}, cl.E}}
			t, err := ctx.EvalBool(e)
			if err != nil {
				ex.oblige(post, "binding", c.Key+"#binding", cl.Props, TFalse, fmt.Sprintf("%s[%s]: %v", kind, cl.Label, err))
				continue
			}
			emit(kind, cl.Label, cl.Props, Implies(okCond, t), cl.Text)
		}
	}
	// step relations (history lemmas): every successful transaction, i.e. every MsgServer method, must satisfy them
	if strings.HasPrefix(c.Key, "keeper.msgServer.") && fn.Object() != nil && fn.Object().Exported() {
		for _, cl := range stepClauses {
			if !relevant(cl, ex.prop) {
				continue
			}
			t, err := ctx.EvalBool(cl.E)
			if err != nil {
				ex.oblige(post, "binding", c.Key+"#binding", cl.Props, TFalse, fmt.Sprintf("step[%s]: %v", cl.Label, err))
				continue
			}
			stq := post
			if len(ctx.side) > 0 {
				stq = post.clone()
				for _, s := range ctx.side {
					stq.assume(s)
				}
				ctx.side = nil
			}
			ex.oblige(stq, "lemma", fmt.Sprintf("lemma.%s@%s", cl.Label, strings.TrimPrefix(c.Key, "keeper.msgServer.")), cl.Props, Implies(okCond, t), cl.Text)
		}
	}
	// frame: every abstract component not named by a modifies clause is unchanged; named keyed ones only at the key
	mods := c.byKind("modifies")
	rel := false
	for _, cl := range mods {
		if relevant(cl, ex.prop) {
			rel = true
		}
	}
	if len(mods) > 0 && rel {
		ex.frameObligations(c, ctx, mods, post)
	}
}

func (ex *Exec) frameObligations(c *Contract, ctx *EvalCtx, mods []*Clause, post *State) {
	type tgt struct {
		prefix string
		keys   []*Term
	}
	var tgts []tgt
	var props []string
	label := ""
	for _, cl := range mods {
		props = append(props, cl.Props...)
		if cl.Label != "" {
			label = cl.Label
		}
		for _, m := range cl.Mods {
			func() {
				defer func() {
					if r := recover(); r != nil {
						if ee, ok := r.(evalErr); ok {
							ex.oblige(post, "binding", c.Key+"#binding", cl.Props, TFalse, "modifies: "+ee.msg)
							return
						}
						panic(r)
					}
				}()
				cc := ex.modTarget(ctx, m)
				tgts = append(tgts, tgt{cc.Prefix, cc.Keys})
			}()
		}
	}
	for i := range comps {
		comp := &comps[i]
		var except [][]*Term
		free := false
		for _, t := range tgts {
			if t.prefix == "" || comp.Name == t.prefix || strings.HasPrefix(comp.Name, t.prefix+".") {
				if len(t.keys) == 0 {
					free = true
				} else if len(t.keys) == len(comp.KeySorts) {
					except = append(except, t.keys)
				} else {
					free = true // partial key: whole sub-map may change
				}
			}
		}
		if free {
			continue
		}
		if ex.mode == "L2" && abstractListComp(comp.Name) {
			// list views of the four collections whose GetAll* is assumed: no raw-store coupling to check against
			continue
		}
		goal := ctx.compUnchanged(comp, except)
		stq := post
		if len(ctx.side) > 0 {
			stq = post.clone()
			for _, s := range ctx.side {
				stq.assume(s)
			}
			ctx.side = nil
		}
		name := fmt.Sprintf("%s#frame[%s]", c.Key, comp.Name)
		ex.oblige(stq, "frame", name, append([]string{"C15"}, props...), goal, "frame "+label)
	}
}

// ---- loops (cut at headers with invariants from the contract)

func isLoopHeader(b *ssa.BasicBlock) bool {
	for _, p := range b.Preds {
		if b.Dominates(p) {
			return true
		}
	}
	return false
}

func (ex *Exec) enterLoopHeader(st *State, b *ssa.BasicBlock, prev *ssa.BasicBlock, k cont) bool {
	if !isLoopHeader(b) {
		return false
	}
	if ex.inInit {
		return false
	}
	if ex.resumeHeader == b {
		ex.resumeHeader = nil
		return false
	}
	return ex.loopCut(st, b, prev, k)
}

func (ex *Exec) attesterType() types.Type {
	pkg := ex.pkgs[repoPrefix+"/types"]
	return pkg.Type("Attester").Type()
}

// VerifyLemma proves a contract-language lemma: hypotheses ==> goal, one obligation per top-level conjunct.
func (ex *Exec) VerifyLemma(l *Lemma) {
	ex.top = nil
	ex.mode = "L3"
	st := ex.newState("lem")
	ctx := &EvalCtx{ex: ex, pre: st, post: st, vars: map[string]Value{}, bound: map[string]Value{}}
	for _, v := range l.Vars {
		func() {
			defer func() {
				if r := recover(); r != nil {
					if ee, ok := r.(evalErr); ok {
						ex.obls = append(ex.obls, &Obligation{Name: "lemma." + l.Name + "#binding", Kind: "binding", Props: propSet(l.Props), Goal: TFalse, Note: ee.msg, Res: SolverResult{Status: "sat", Solver: "syntactic"}})
						return
					}
					panic(r)
				}
			}()
			sort, mk := ctx.boundSort(v[1])
			t := Fresh("lem."+v[0], sort)
			if sort == SBytes {
				st.assume(App("canon", SBool, t))
				st.assume(BVUle(Blen(t), maxLen))
			}
			if v[1] == "amount" {
				st.assume(bigInRange(t))
			}
			ctx.vars[v[0]] = mk(t)
		}()
	}
	name := "lemma." + l.Name
	for _, h := range l.Hyps {
		t, err := ctx.EvalBool(h)
		if err != nil {
			ex.obls = append(ex.obls, &Obligation{Name: name + "#binding", Kind: "binding", Props: propSet(l.Props), Goal: TFalse, Note: err.Error(), Res: SolverResult{Status: "sat", Solver: "syntactic"}})
			return
		}
		st.assume(t)
	}
	// vacuity guard: contradictory hypotheses would prove any goal
	ex.obls = append(ex.obls, &Obligation{Name: name + "#cover", Kind: "cover", Props: propSet(l.Props), Fn: name, Goal: TFalse,
		coverPaths: [][]*Term{append(append([]*Term(nil), st.pc...), ctx.side...)},
		Note: "the hypotheses of this lemma are contradictory: it proves nothing"})
	var conjuncts []*Expr
	var split func(e *Expr)
	split = func(e *Expr) {
		if e.Op == "binary" && e.Name == "&&" {
			split(e.Args[0])
			split(e.Args[1])
			return
		}
		conjuncts = append(conjuncts, e)
	}
	split(l.Goal)
	for i, cj := range conjuncts {
		t, err := ctx.EvalBool(cj)
		if err != nil {
			ex.obls = append(ex.obls, &Obligation{Name: name + "#binding", Kind: "binding", Props: propSet(l.Props), Goal: TFalse, Note: err.Error(), Res: SolverResult{Status: "sat", Solver: "syntactic"}})
			return
		}
		n := name
		if len(conjuncts) > 1 {
			n = fmt.Sprintf("%s[%d]", name, i)
		}
		o := &Obligation{Name: n, Kind: "lemma", Props: propSet(l.Props), Fn: name, Goal: t, Assumes: append(append([]*Term(nil), st.pc...), ctx.side...), Note: cj.String()}
		if t == TTrue {
			o.Res = SolverResult{Status: "unsat", Solver: "syntactic"}
		}
		ex.obls = append(ex.obls, o)
	}
}

func isEntryPoint(fn *ssa.Function, c *Contract) bool {
	for _, p := range c.Serves {
		if p == "C20" {
			return true
		}
	}
	return fn.Object() != nil && fn.Object().Exported()
}

func abstractListComp(name string) bool {
	for _, p := range []string{"nLimits", "limitList", "nPairs", "pairList", "nNonces", "nonceList", "nMsgrs", "msgrList"} {
		if name == p || strings.HasPrefix(name, p+".") {
			return true
		}
	}
	return false
}
