package main

// Calls: contracted callees (modular), uncontracted repo callees (inlined), L0 library models.

import (
	"fmt"
	"go/types"
	"strings"

	"golang.org/x/tools/go/ssa"
)

const maxInline = 4

func (ex *Exec) call(st *State, at ssa.Instruction, cc *ssa.CallCommon, k cont) {
	name := calleeName(cc)
	var args []Value
	if cc.IsInvoke() {
		args = append(args, ex.val(st, cc.Value))
	}
	for _, a := range cc.Args {
		args = append(args, ex.val(st, a))
	}
	if len(st.frames) == 1 && ex.topC != nil && !ex.inInit {
		args = ex.ghostAsserts(st, name, args, cc.StaticCallee() == nil || !isRepoFn(cc.StaticCallee()))
		if st.infeasible() {
			return
		}
	}
	// builtins
	if b, ok := cc.Value.(*ssa.Builtin); ok {
		k(st, []Value{ex.builtin(st, b.Name(), cc, args)})
		return
	}
	if fn := cc.StaticCallee(); fn != nil && isRepoFn(fn) && fn.Blocks != nil {
		key := fnName(fn)
		if c, ok := ex.contracts[key]; ok && fn != ex.top && !ex.inInit {
			ex.applyContract(st, fn, c, args, k)
			return
		}
		if fn == ex.top {
			ex.oblige(st, "limit", fnName(ex.top)+"#tool-limit@recursion", nil, TFalse, "recursive call")
			return
		}
		if len(st.frames) > maxInline+1 {
			ex.oblige(st, "limit", fnName(ex.top)+"#tool-limit@inline-depth", nil, TFalse, "inlining depth exceeded at "+key)
			return
		}
		ex.runFunc(st, fn, args, k)
		return
	}
	if m, ok := l0models[name]; ok {
		ex.l0used[name]++
		res := m(ex, st, cc, args)
		if st.infeasible() {
			return
		}
		k(st, res)
		return
	}
	// closure call (dynamic)
	if !cc.IsInvoke() {
		if cl, ok := ex.val(st, cc.Value).(VClosure); ok && cl.Fn != nil && cl.Fn.Blocks != nil {
			fr := append([]Value(nil), args...)
			ex.runClosure(st, cl, fr, k)
			return
		}
	}
	if ex.inInit {
		k(st, tupleOf(ex.havocResults(st, cc)))
		return
	}
	ex.note(st, "unmodelled-call:%s", name)
	ex.unmodelled[name]++
	k(st, tupleOf(ex.havocResults(st, cc)))
}

func tupleOf(v []Value) []Value { return v }

func (ex *Exec) havocResults(st *State, cc *ssa.CallCommon) []Value {
	sig := cc.Signature()
	var out []Value
	for i := 0; i < sig.Results().Len(); i++ {
		out = append(out, ex.havoc(st, sig.Results().At(i).Type(), "ext"))
	}
	return out
}

func (ex *Exec) runClosure(st *State, cl VClosure, args []Value, k cont) {
	fn := cl.Fn
	fr := &Frame{Fn: fn, Regs: map[ssa.Value]Value{}}
	for i, p := range fn.Params {
		fr.Regs[p] = args[i]
	}
	for i, fv := range fn.FreeVars {
		fr.Regs[fv] = cl.Bind[i]
	}
	st.frames = append(st.frames, fr)
	depth := len(st.frames)
	ex.runBlock(st, fn.Blocks[0], nil, 0, func(st *State, res []Value) {
		st.frames = st.frames[:depth-1]
		k(st, res)
	})
}

// ---- builtins

func (ex *Exec) builtin(st *State, name string, cc *ssa.CallCommon, args []Value) Value {
	switch name {
	case "len":
		switch x := args[0].(type) {
		case VSlice:
			return VBV{x.Len, true}
		case VStr:
			return VBV{Blen(x.T), true}
		case VList:
			return VBV{x.Len, true}
		case VVals:
			return VBV{BV(64, int64(len(x.E))), true}
		case VMap:
			ex.note(st, "unmodelled-instruction:len(map)")
			return VBV{Fresh("maplen", SBV(64)), true}
		}
	case "cap":
		if x, ok := args[0].(VSlice); ok {
			return VBV{x.Cap, true}
		}
	case "copy":
		dst := args[0].(VSlice)
		var srcArr, srcOff, srcLen *Term
		switch s := args[1].(type) {
		case VSlice:
			if s.Obj < 0 {
				return VBV{BV(64, 0), true}
			}
			srcArr, srcOff, srcLen = st.heap[s.Obj], s.Off, s.Len
		case VStr:
			srcArr, srcOff, srcLen = Barr(s.T), BV(64, 0), Blen(s.T)
		}
		n := Ite(BVUlt(dst.Len, srcLen), dst.Len, srcLen)
		if dst.Obj < 0 {
			return VBV{BV(64, 0), true}
		}
		old := st.heap[dst.Obj]
		if dl, ok := dst.Len.U64(); ok && dl <= 256 && n.Op != "const" {
			// constant-size destination, symbolic source length: byte i is copied iff i < len(src)
			arr := old
			for i := uint64(0); i < dl; i++ {
				at := BVAdd(dst.Off, BVU(64, i))
				arr = Store(arr, at, Ite(BVUlt(BVU(64, i), srcLen), Select(srcArr, BVAdd(srcOff, BVU(64, i))), Select(old, at)))
			}
			st.heap[dst.Obj] = arr
			return VBV{n, true}
		}
		if c, ok := n.U64(); ok && c <= 256 {
			arr := old
			for i := uint64(0); i < c; i++ {
				arr = Store(arr, BVAdd(dst.Off, BVU(64, i)), Select(srcArr, BVAdd(srcOff, BVU(64, i))))
			}
			st.heap[dst.Obj] = arr
		} else {
			st.heap[dst.Obj] = App("memcpy", SArr, old, dst.Off, srcArr, srcOff, n)
		}
		return VBV{n, true}
	case "append":
		return ex.appendModel(st, cc, args)
	}
	ex.note(st, "unmodelled-call:builtin %s on %T", name, args[0])
	sig := cc.Signature()
	if sig.Results().Len() == 1 {
		return ex.havoc(st, sig.Results().At(0).Type(), name)
	}
	return VOpaque{name}
}

func (ex *Exec) appendModel(st *State, cc *ssa.CallCommon, args []Value) Value {
	switch base := args[0].(type) {
	case VSlice:
		// append(a, b...): a fresh object holding a ++ b (the base is not used again on any path in scope;
		// see DESIGN 2.4 "append consumes its base")
		if _, global := ex.globalHeap[base.Obj]; global && base.Obj >= 0 && !ex.inInit {
			// append writes in place when the base has spare capacity: into package-level memory here.
			// The memory model (append returns a fresh object) is only sound if that cannot happen.
			ex.oblige(st, "model", fnName(ex.top)+"#model@append-into-package-memory", []string{"C18"}, Eq(base.Len, base.Cap),
				"append to a slice of a package-level variable with spare capacity writes shared memory in place")
		}
		a := ex.snapshot(st, base)
		var b *Term
		switch s := args[1].(type) {
		case VSlice:
			b = ex.snapshot(st, s)
		case VStr:
			b = s.T
		}
		if b == nil {
			break
		}
		r := Cat(a, b)
		nilT := And(base.Nil, Eq(Blen(b), BV(64, 0)))
		out := ex.sliceOf(st, r, nilT)
		// capacity is at least the length; exact value is runtime-dependent
		cp := Fresh("cap", SBV(64))
		st.assume(And(BVUge(cp, out.Len), BVUle(cp, BVU(64, 1<<48))))
		st.assume(BVUle(out.Len, BVU(64, 1<<47)))
		ex.objs[out.Obj].Size = cp
		out.Cap = cp
		return out
	case VList:
		switch e := args[1].(type) {
		case VVals:
			l := base
			for _, v := range e.E {
				l = ex.listAppend(st, l, v)
			}
			return l
		}
	}
	ex.note(st, "unmodelled-call:append on %T/%T", args[0], args[1])
	return ex.havoc(st, cc.Signature().Results().At(0).Type(), "append")
}

// ---- lists of structs

type leaf struct {
	Path string
	Kind kind
	Sort string
	W    int
	Sgn  bool
}

func leavesOf(t types.Type, prefix string, out *[]leaf) {
	switch classify(t) {
	case kBool:
		*out = append(*out, leaf{prefix, kBool, SBool, 0, false})
	case kInt:
		w, s := intInfo(t)
		*out = append(*out, leaf{prefix, kInt, SBV(w), w, s})
	case kStr:
		*out = append(*out, leaf{prefix, kStr, SBytes, 0, false})
	case kBytes:
		*out = append(*out, leaf{prefix, kBytes, SBytes, 0, false})
		*out = append(*out, leaf{prefix + ".isnil", kBool, SBool, 0, false})
	case kBig:
		*out = append(*out, leaf{prefix + ".nil", kBool, SBool, 0, false})
		*out = append(*out, leaf{prefix + ".v", kInt, SBV(bigW), bigW, true})
	case kStruct:
		s := t.Underlying().(*types.Struct)
		for i := 0; i < s.NumFields(); i++ {
			p := s.Field(i).Name()
			if prefix != "" {
				p = prefix + "." + p
			}
			leavesOf(s.Field(i).Type(), p, out)
		}
	}
}

func (ex *Exec) emptyList(elem types.Type) VList {
	var ls []leaf
	leavesOf(elem, "", &ls)
	l := VList{ElemT: elem, Len: BV(64, 0), Cols: map[string]*Term{}}
	for _, lf := range ls {
		var def *Term
		switch {
		case lf.Sort == SBool:
			def = TFalse
		case lf.Sort == SBytes:
			def = EmptyBytes
		default:
			def = BV(lf.W, 0)
		}
		l.Cols[lf.Path] = ConstArr(SArray(SBV(64), lf.Sort), def)
	}
	return l
}

func (ex *Exec) freshList(st *State, elem types.Type, hint string) VList {
	var ls []leaf
	leavesOf(elem, "", &ls)
	l := VList{ElemT: elem, Len: Fresh(hint+".len", SBV(64)), Cols: map[string]*Term{}}
	st.assume(BVUle(l.Len, BVU(64, 1<<32)))
	for _, lf := range ls {
		col := Fresh(hint+"."+lf.Path, SArray(SBV(64), lf.Sort))
		l.Cols[lf.Path] = col
		if lf.Sort == SBytes {
			i := Var("q$li", SBV(64))
			st.assume(Forall([]*Term{i}, And(App("canon", SBool, Select(col, i)), BVUle(Blen(Select(col, i)), maxLen)), []*Term{Select(col, i)}))
		}
		if lf.Path != "" && strings.HasSuffix(lf.Path, ".v") && lf.W == bigW {
			i := Var("q$li", SBV(64))
			st.assume(Forall([]*Term{i}, bigInRange(Select(col, i)), []*Term{Select(col, i)}))
		}
	}
	return l
}

func (ex *Exec) listElem(st *State, l *VList, idx *Term) Value {
	return ex.buildFromCols(st, l.ElemT, "", func(path string) *Term { return Select(l.Cols[path], idx) })
}

func (ex *Exec) buildFromCols(st *State, t types.Type, prefix string, get func(string) *Term) Value {
	switch classify(t) {
	case kBool:
		return VBool{get(prefix)}
	case kInt:
		_, s := intInfo(t)
		return VBV{get(prefix), s}
	case kStr:
		return VStr{get(prefix)}
	case kBytes:
		return ex.sliceOf(st, get(prefix), get(prefix+".isnil"))
	case kBig:
		return VBig{Nil: get(prefix + ".nil"), V: get(prefix + ".v")}
	case kStruct:
		s := t.Underlying().(*types.Struct)
		out := VStruct{T: t}
		for i := 0; i < s.NumFields(); i++ {
			p := s.Field(i).Name()
			if prefix != "" {
				p = prefix + "." + p
			}
			out.F = append(out.F, ex.buildFromCols(st, s.Field(i).Type(), p, get))
		}
		return out
	}
	return VOpaque{"listelem"}
}

func (ex *Exec) leafVals(st *State, t types.Type, prefix string, v Value, out map[string]*Term) {
	switch classify(t) {
	case kBool:
		out[prefix] = v.(VBool).T
	case kInt:
		out[prefix] = v.(VBV).T
	case kStr:
		out[prefix] = v.(VStr).T
	case kBytes:
		s := v.(VSlice)
		out[prefix] = ex.snapshot(st, s)
		out[prefix+".isnil"] = s.Nil
	case kBig:
		b := v.(VBig)
		out[prefix+".nil"] = b.Nil
		out[prefix+".v"] = b.V
	case kStruct:
		s := t.Underlying().(*types.Struct)
		sv, ok := v.(VStruct)
		if !ok {
			return
		}
		for i := 0; i < s.NumFields(); i++ {
			p := s.Field(i).Name()
			if prefix != "" {
				p = prefix + "." + p
			}
			ex.leafVals(st, s.Field(i).Type(), p, sv.F[i], out)
		}
	}
}

func (ex *Exec) listAppend(st *State, l VList, v Value) VList {
	vals := map[string]*Term{}
	ex.leafVals(st, l.ElemT, "", v, vals)
	nl := VList{ElemT: l.ElemT, Len: BVAdd(l.Len, BV(64, 1)), Cols: map[string]*Term{}}
	for p, col := range l.Cols {
		if t, ok := vals[p]; ok {
			nl.Cols[p] = Store(col, l.Len, t)
		} else {
			nl.Cols[p] = col
		}
	}
	return nl
}

// ---- applying a callee's contract at a call site

func (ex *Exec) bindContract(c *Contract, fn *ssa.Function, args []Value) (map[string]Value, error) {
	vars := map[string]Value{}
	nparams := len(fn.Params)
	names := c.Params
	off := 0
	if fn.Signature.Recv() != nil {
		off = 1
		vars["$recv"] = args[0]
	}
	if len(names) != nparams-off {
		return nil, fmt.Errorf("contract %s names %d parameters, function has %d", c.Key, len(names), nparams-off)
	}
	for i, n := range names {
		vars[n] = args[off+i]
	}
	if len(c.Results) != fn.Signature.Results().Len() {
		return nil, fmt.Errorf("contract %s names %d results, function has %d", c.Key, len(c.Results), fn.Signature.Results().Len())
	}
	return vars, nil
}

func (ex *Exec) applyContract(st *State, fn *ssa.Function, c *Contract, args []Value, k cont) {
	vars, err := ex.bindContract(c, fn, args)
	if err != nil {
		ex.oblige(st, "binding", c.Key+"#binding", nil, TFalse, err.Error())
		return
	}
	pre := st.clone()
	// 1. requires -> obligations of the caller
	ctx := &EvalCtx{ex: ex, pre: pre, post: pre, vars: vars, bound: map[string]Value{}, evBase: len(pre.events), clBase: len(pre.calls)}
	for i, cl := range c.byKind("requires") {
		t, err := ctx.EvalBool(cl.E)
		if err != nil {
			ex.oblige(st, "binding", c.Key+"#binding", nil, TFalse, fmt.Sprintf("requires %d: %v", i, err))
			return
		}
		name := fmt.Sprintf("%s#requires@%s[%s]", fnName(ex.top), c.Key, cl.Label)
		ex.oblige(st, "requires", name, append([]string{"C20"}, cl.Props...), t, cl.Text)
		st.assume(t)
	}
	// 2. havoc what the callee may modify. A frame clause that is not part of this property's proof is not
	// assumed: everything is havocked instead.
	for _, cl := range c.byKind("modifies") {
		for _, m := range cl.Mods {
			tgt := ctx.eval(m)
			cc, ok := tgt.(CComp)
			if !ok {
				// a fully resolved component: re-evaluate structurally
				cc = ex.modTarget(ctx, m)
			}
			for _, comp := range compsWithPrefix(cc.Prefix) {
				fv := Fresh("h."+comp.Name, compValSort(comp, len(cc.Keys)))
				if len(cc.Keys) == 0 {
					st.abs[comp.Name] = fv
				} else {
					st.abs[comp.Name] = storeNested(st.abs[comp.Name], cc.Keys, fv)
				}
			}
		}
	}
	// attestation-style in-place modification of byte parameters: "assigns p" havocs the bytes of p
	for _, cl := range c.byKind("assigns") {
		for _, m := range cl.Mods {
			if m.Op == "ident" {
				if s, ok := vars[m.Name].(VSlice); ok && s.Obj >= 0 {
					st.heap[s.Obj] = Fresh("assigned", SArr)
				}
			}
		}
	}
	// 3. fresh results
	sig := fn.Signature
	var res []Value
	for i := 0; i < sig.Results().Len(); i++ {
		rv := ex.fresh(st, sig.Results().At(i).Type(), c.Key+"."+c.Results[i], 0)
		res = append(res, rv)
		vars[c.Results[i]] = rv
	}
	// 4. emits / calls: fork on success so that logs stay concrete lists
	errIdx := -1
	for i, r := range res {
		if _, ok := r.(VErr); ok {
			errIdx = i
		}
	}
	// every clause of the callee is assumed here; which clauses are *checked* in a property's run is decided
	// by their tags (see relevant()): a clause is checked under every property it is tagged with.
	emits, calls := c.byKind("emits"), c.byKind("calls")
	branches := []*State{st}
	var succ []bool
	if errIdx >= 0 && (len(emits) > 0 || len(calls) > 0) {
		e := res[errIdx].(VErr).Is
		st2 := st.clone()
		st.assume(Not(e))
		st2.assume(e)
		branches = []*State{st, st2}
		succ = []bool{true, false}
	} else {
		succ = []bool{true}
	}
	for bi, bs := range branches {
		post := bs
		ectx := &EvalCtx{ex: ex, pre: pre, post: post, vars: vars, bound: map[string]Value{}, evBase: len(pre.events), clBase: len(pre.calls)}
		if succ[bi] {
			for _, cl := range emits {
				recs, err := ex.evalRecList(ectx, cl.E)
				if err != nil {
					ex.oblige(bs, "binding", c.Key+"#binding", nil, TFalse, "emits: "+err.Error())
					return
				}
				bs.events = append(bs.events, recs...)
			}
			for _, cl := range calls {
				recs, err := ex.evalRecList(ectx, cl.E)
				if err != nil {
					ex.oblige(bs, "binding", c.Key+"#binding", nil, TFalse, "calls: "+err.Error())
					return
				}
				bs.calls = append(bs.calls, recs...)
			}
		} else {
			if len(emits) > 0 {
				bs.evTaint = true
			}
			if len(calls) > 0 {
				bs.callTaint = true
			}
		}
		// number of EmitTypedEvent calls inside the callee is unknown to the caller: keep indices apart
		// the callee's k-th emission is this function's (emitN+k)-th; on failure their number is unknown
		if succ[bi] {
			for _, cl := range emits {
				if cl.E.Op == "list" {
					bs.emitN += len(cl.E.Args)
				}
			}
		} else if len(emits) > 0 {
			bs.emitN += 100
		}
		if succ[bi] {
			for _, cl := range calls {
				if cl.E.Op == "list" {
					bs.callN += len(cl.E.Args)
				}
			}
		} else if len(calls) > 0 {
			bs.callN += 100
		}
		// callee may have changed the external world
		if len(calls) > 0 {
			bs.ext = Fresh("ext", "Ext")
		}
		var facts []*Term
		for _, cl := range c.byKind("ensures") {
			t, err := ectx.EvalBool(cl.E)
			if err != nil {
				ex.oblige(bs, "binding", c.Key+"#binding", nil, TFalse, fmt.Sprintf("ensures[%s]: %v", cl.Label, err))
				return
			}
			facts = append(facts, t)
			facts = append(facts, ectx.side...)
			ectx.side = nil
		}
		// definitional postconditions (result == expression) bind the result instead of adding an equation
		resVars := map[*Term]bool{}
		for _, r := range res {
			ex.collectVars(bs, r, resVars)
		}
		sub, rest := definitional(facts, resVars)
		bres := res
		if len(sub) > 0 {
			bres = make([]Value, len(res))
			for i, r := range res {
				bres[i] = ex.substValue(bs, r, sub)
			}
			for i, t := range bs.pc {
				bs.pc[i] = substFix(t, sub)
			}
		}
		for _, t := range rest {
			bs.assume(t)
		}
		if bs.infeasible() {
			continue
		}
		k(bs, bres)
	}
}

func compValSort(c *Comp, nkeys int) string {
	s := c.ValSort
	for i := len(c.KeySorts) - 1; i >= nkeys; i-- {
		s = SArray(c.KeySorts[i], s)
	}
	return s
}

// modTarget evaluates a modifies target into a component prefix and keys.
func (ex *Exec) modTarget(ctx *EvalCtx, e *Expr) CComp {
	switch e.Op {
	case "ident":
		if e.Name == "st" {
			return CComp{}
		}
	case "field":
		b := ex.modTarget(ctx, e.Args[0])
		p := e.Name
		if b.Prefix != "" {
			p = b.Prefix + "." + e.Name
		}
		return CComp{Prefix: p, Keys: b.Keys}
	case "index":
		b := ex.modTarget(ctx, e.Args[0])
		cs := compsWithPrefix(b.Prefix)
		if len(cs) == 0 || len(cs[0].KeySorts) <= len(b.Keys) {
			fail("bad modifies target %s", e)
		}
		ks := cs[0].KeySorts[len(b.Keys)]
		iv := ctx.norm(ctx.eval(e.Args[1]))
		var kt *Term
		if ks == SBytes {
			kt = bytesTerm(iv)
		} else {
			kt = ctx.asBV(iv, bvWidth(ks))
		}
		return CComp{Prefix: b.Prefix, Keys: append(append([]*Term(nil), b.Keys...), kt)}
	}
	fail("bad modifies target %s", e)
	return CComp{}
}

func (ex *Exec) evalRecList(ctx *EvalCtx, e *Expr) (recs []Rec, err error) {
	defer func() {
		if r := recover(); r != nil {
			if ee, ok := r.(evalErr); ok {
				err = ee
				return
			}
			panic(r)
		}
	}()
	v := ctx.eval(e)
	l, ok := v.(CList)
	if !ok {
		return nil, fmt.Errorf("record list expected")
	}
	for _, it := range l.E {
		lit, ok := ctx.norm(it).(CLit)
		if !ok {
			return nil, fmt.Errorf("record literal expected")
		}
		r := Rec{Kind: lit.Name, Fields: map[string]Value{}, Order: lit.Order}
		for n, fv := range lit.Fields {
			r.Fields[n] = ctx.norm(fv)
		}
		recs = append(recs, r)
	}
	return recs, nil
}

func relevantClauses(cs []*Clause, prop string) []*Clause {
	var out []*Clause
	for _, c := range cs {
		if relevant(c, prop) {
			out = append(out, c)
		}
	}
	return out
}

// ---- definitional bindings

func substFix(t *Term, m map[*Term]*Term) *Term {
	for i := 0; i < 8; i++ {
		n := Subst(t, m)
		if n == t {
			return n
		}
		t = n
	}
	return t
}

func occurs(v, t *Term) bool {
	seen := map[*Term]bool{}
	var rec func(t *Term) bool
	rec = func(t *Term) bool {
		if t == v {
			return true
		}
		if seen[t] {
			return false
		}
		seen[t] = true
		for _, a := range t.Args {
			if rec(a) {
				return true
			}
		}
		return false
	}
	return rec(t)
}

// definitional splits facts into bindings v := e for fresh result variables and the remaining facts.
func definitional(facts []*Term, vars map[*Term]bool) (map[*Term]*Term, []*Term) {
	sub := map[*Term]*Term{}
	var rest []*Term
	bind := func(v, e *Term) bool {
		if !vars[v] || sub[v] != nil || occurs(v, e) {
			return false
		}
		sub[v] = e
		return true
	}
	var handle func(t *Term, guard *Term)
	handle = func(t *Term, guard *Term) {
		t = substFix(t, sub)
		if t == TTrue {
			return
		}
		if t.Op == "and" {
			for _, a := range t.Args {
				handle(a, guard)
			}
			return
		}
		if guard == nil {
			switch {
			case t.Op == "var" && bind(t, TTrue):
				return
			case t.Op == "not" && t.Args[0].Op == "var" && bind(t.Args[0], TFalse):
				return
			case t.Op == "=":
				if t.Args[0].Op == "var" && bind(t.Args[0], t.Args[1]) {
					return
				}
				if t.Args[1].Op == "var" && bind(t.Args[1], t.Args[0]) {
					return
				}
				// (not v) = e  for booleans
				if t.Args[0].Op == "not" && t.Args[0].Args[0].Op == "var" && bind(t.Args[0].Args[0], Not(t.Args[1])) {
					return
				}
				if t.Args[1].Op == "not" && t.Args[1].Args[0].Op == "var" && bind(t.Args[1].Args[0], Not(t.Args[0])) {
					return
				}
			case t.Op == "=>":
				handle(t.Args[1], t.Args[0])
				return
			}
			rest = append(rest, t)
			return
		}
		// guarded: v := ite(guard, e, v')
		g := substFix(guard, sub)
		if t.Op == "=" {
			for _, o := range [][2]*Term{{t.Args[0], t.Args[1]}, {t.Args[1], t.Args[0]}} {
				v, e := o[0], o[1]
				if v.Op == "var" && vars[v] && sub[v] == nil && !occurs(v, e) && !occurs(v, g) {
					nv := Fresh(v.Name, v.Sort)
					vars[nv] = true
					sub[v] = Ite(g, e, nv)
					return
				}
			}
		}
		if t.Op == "var" && vars[t] && sub[t] == nil && !occurs(t, g) {
			nv := Fresh(t.Name, SBool)
			vars[nv] = true
			sub[t] = Ite(g, TTrue, nv)
			return
		}
		if t.Op == "not" && t.Args[0].Op == "var" && vars[t.Args[0]] && sub[t.Args[0]] == nil && !occurs(t.Args[0], g) {
			nv := Fresh(t.Args[0].Name, SBool)
			vars[nv] = true
			sub[t.Args[0]] = Ite(g, TFalse, nv)
			return
		}
		rest = append(rest, Implies(g, t))
	}
	for _, f := range facts {
		handle(f, nil)
	}
	// normalise: bindings may mention later-bound variables
	for v, e := range sub {
		sub[v] = substFix(e, sub)
	}
	return sub, rest
}

func (ex *Exec) collectVars(st *State, v Value, out map[*Term]bool) {
	var term func(t *Term)
	seen := map[*Term]bool{}
	term = func(t *Term) {
		if t == nil || seen[t] {
			return
		}
		seen[t] = true
		if t.Op == "var" {
			out[t] = true
		}
		for _, a := range t.Args {
			term(a)
		}
	}
	var rec func(v Value, depth int)
	rec = func(v Value, depth int) {
		if depth > 6 {
			return
		}
		switch x := v.(type) {
		case VBool:
			term(x.T)
		case VBV:
			term(x.T)
		case VStr:
			term(x.T)
		case VErr:
			term(x.Is)
		case VBig:
			term(x.Nil)
			term(x.V)
		case VSlice:
			term(x.Len)
			term(x.Nil)
			term(x.Whole)
		case VStruct:
			for _, f := range x.F {
				rec(f, depth+1)
			}
		case VPtr:
			if x.Cell > 0 {
				rec(st.cells[x.Cell], depth+1)
			}
			term(x.NilT)
		case VList:
			term(x.Len)
			for _, c := range x.Cols {
				term(c)
			}
		case VTuple:
			for _, e := range x {
				rec(e, depth+1)
			}
		}
	}
	rec(v, 0)
}

func (ex *Exec) substValue(st *State, v Value, m map[*Term]*Term) Value {
	s := func(t *Term) *Term {
		if t == nil {
			return nil
		}
		return substFix(t, m)
	}
	switch x := v.(type) {
	case VBool:
		return VBool{s(x.T)}
	case VBV:
		return VBV{s(x.T), x.Signed}
	case VStr:
		return VStr{s(x.T)}
	case VErr:
		return VErr{s(x.Is)}
	case VBig:
		return VBig{Nil: s(x.Nil), V: s(x.V)}
	case VSlice:
		n := VSlice{Obj: x.Obj, Off: s(x.Off), Len: s(x.Len), Cap: s(x.Cap), Nil: s(x.Nil), Whole: s(x.Whole)}
		if x.Obj >= 0 {
			if h, ok := st.heap[x.Obj]; ok {
				st.heap[x.Obj] = s(h)
			}
			ex.objs[x.Obj].Size = s(ex.objs[x.Obj].Size)
		}
		return n
	case VStruct:
		nf := make([]Value, len(x.F))
		for i, f := range x.F {
			nf[i] = ex.substValue(st, f, m)
		}
		return VStruct{T: x.T, F: nf}
	case VPtr:
		if x.Cell > 0 {
			st.cells[x.Cell] = ex.substValue(st, st.cells[x.Cell], m)
		}
		if x.NilT != nil {
			return VPtr{Cell: x.Cell, Path: x.Path, NilT: s(x.NilT), Val: x.Val}
		}
		return x
	case VList:
		nl := VList{ElemT: x.ElemT, Len: s(x.Len), Cols: map[string]*Term{}}
		for k, c := range x.Cols {
			nl.Cols[k] = s(c)
		}
		return nl
	case VTuple:
		nt := make(VTuple, len(x))
		for i, e := range x {
			nt[i] = ex.substValue(st, e, m)
		}
		return nt
	}
	return v
}

// ghostAsserts handles `assert@<callee>[label] expr` clauses of the function under verification: before a call
// to a matching callee, expr (over the contract's names plus $0,$1.. for the call's arguments) is proved and
// then assumed. When expr has the shape `$k == E` for a byte-slice argument and a fixed-length E, the
// argument's memory is then rewritten to E's bytes (a ghost update justified by the equality just proved),
// which keeps later terms in the spec's normal form.
func (ex *Exec) ghostAsserts(st *State, callee string, args []Value, readOnlyCallee bool) []Value {
	for _, cl := range ex.topC.Clauses {
		if cl.Kind != "assert" || !strings.Contains(callee, cl.Callee) {
			continue
		}
		vars := map[string]Value{}
		for k, v := range ex.topVars {
			vars[k] = v
		}
		for i, a := range args {
			vars[fmt.Sprintf("$%d", i)] = a
		}
		ctx := &EvalCtx{ex: ex, pre: ex.topPre, post: st, vars: vars, bound: map[string]Value{}, fn: ex.top, loopHeader: st.curLoop}
		t, err := ctx.EvalBool(cl.E)
		if err != nil {
			ex.oblige(st, "binding", ex.topC.Key+"#binding", cl.Props, TFalse, fmt.Sprintf("assert@%s[%s]: %v", cl.Callee, cl.Label, err))
			continue
		}
		name := fmt.Sprintf("%s#assert@%s[%s]", ex.topC.Key, cl.Callee, cl.Label)
		for _, sd := range ctx.side {
			st.assume(sd)
		}
		ctx.side = nil
		if relevant(cl, ex.prop) {
			ex.oblige(st, "assert", name, cl.Props, t, cl.Text)
		}
		st.assume(t)
		// ghost rebinding
		if cl.E.Op == "binary" && cl.E.Name == "==" && cl.E.Args[0].Op == "ident" && strings.HasPrefix(cl.E.Args[0].Name, "$") {
			if sl, ok := vars[cl.E.Args[0].Name].(VSlice); ok && sl.Obj >= 0 {
				func() {
					defer func() { recover() }()
					rhs := bytesTerm(ctx.norm(ctx.eval(cl.E.Args[1])))
					if rhs == nil {
						return
					}
					if n, ok := Blen(rhs).U64(); ok && n <= 256 {
						if !readOnlyCallee {
							arr := st.heap[sl.Obj]
							for k := uint64(0); k < n; k++ {
								arr = Store(arr, BVAdd(sl.Off, BVU(64, k)), Select(Barr(rhs), BVU(64, k)))
							}
							st.heap[sl.Obj] = arr
						}
						if readOnlyCallee {
							// the callee only reads the argument: hand it the spec's value itself
							var idx int
							fmt.Sscanf(cl.E.Args[0].Name, "$%d", &idx)
							if idx < len(args) {
								na := append([]Value(nil), args...)
								na[idx] = ex.sliceOf(st, rhs, TFalse)
								args = na
							}
						}
					}
				}()
			}
		}
	}
	return args
}
