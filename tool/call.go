package main

// Calls: contracted callees (modular), uncontracted repo callees (inlined), L0 library models.

import (
	"fmt"
	"go/types"
	"strings"

	"golang.org/x/tools/go/ssa"
)

const maxInline = 4

func (ex *Exec) call(st *State, at ssa.Instruction, cc *ssa.CallCommon, k cont) {
	name := calleeName(cc)
	var args []Value
	if cc.IsInvoke() {
		args = append(args, ex.val(st, cc.Value))
	}
	for _, a := range cc.Args {
		args = append(args, ex.val(st, a))
	}
	// builtins
	if b, ok := cc.Value.(*ssa.Builtin); ok {
		k(st, []Value{ex.builtin(st, b.Name(), cc, args)})
		return
	}
	if fn := cc.StaticCallee(); fn != nil && isRepoFn(fn) && fn.Blocks != nil {
		key := fnName(fn)
		if c, ok := ex.contracts[key]; ok && fn != ex.top && !ex.inInit {
			ex.applyContract(st, fn, c, args, k)
			return
		}
		if fn == ex.top {
			ex.oblige(st, "limit", fnName(ex.top)+"#tool-limit@recursion", nil, TFalse, "recursive call")
			return
		}
		if len(st.frames) > maxInline+1 {
			ex.oblige(st, "limit", fnName(ex.top)+"#tool-limit@inline-depth", nil, TFalse, "inlining depth exceeded at "+key)
			return
		}
		ex.runFunc(st, fn, args, k)
		return
	}
	if m, ok := l0models[name]; ok {
		ex.l0used[name]++
		res := m(ex, st, cc, args)
		if st.infeasible() {
			return
		}
		k(st, res)
		return
	}
	// closure call (dynamic)
	if !cc.IsInvoke() {
		if cl, ok := ex.val(st, cc.Value).(VClosure); ok && cl.Fn != nil && cl.Fn.Blocks != nil {
			fr := append([]Value(nil), args...)
			ex.runClosure(st, cl, fr, k)
			return
		}
	}
	if ex.inInit {
		k(st, tupleOf(ex.havocResults(st, cc)))
		return
	}
	ex.note(st, "unmodelled-call:%s", name)
	ex.unmodelled[name]++
	k(st, tupleOf(ex.havocResults(st, cc)))
}

func tupleOf(v []Value) []Value { return v }

func (ex *Exec) havocResults(st *State, cc *ssa.CallCommon) []Value {
	sig := cc.Signature()
	var out []Value
	for i := 0; i < sig.Results().Len(); i++ {
		out = append(out, ex.havoc(st, sig.Results().At(i).Type(), "ext"))
	}
	return out
}

func (ex *Exec) runClosure(st *State, cl VClosure, args []Value, k cont) {
	fn := cl.Fn
	fr := &Frame{Fn: fn, Regs: map[ssa.Value]Value{}}
	for i, p := range fn.Params {
		fr.Regs[p] = args[i]
	}
	for i, fv := range fn.FreeVars {
		fr.Regs[fv] = cl.Bind[i]
	}
	st.frames = append(st.frames, fr)
	depth := len(st.frames)
	ex.runBlock(st, fn.Blocks[0], nil, 0, func(st *State, res []Value) {
		st.frames = st.frames[:depth-1]
		k(st, res)
	})
}

// ---- builtins

func (ex *Exec) builtin(st *State, name string, cc *ssa.CallCommon, args []Value) Value {
	switch name {
	case "len":
		switch x := args[0].(type) {
		case VSlice:
			return VBV{x.Len, true}
		case VStr:
			return VBV{Blen(x.T), true}
		case VList:
			return VBV{x.Len, true}
		case VVals:
			return VBV{BV(64, int64(len(x.E))), true}
		case VMap:
			ex.note(st, "unmodelled-instruction:len(map)")
			return VBV{Fresh("maplen", SBV(64)), true}
		}
	case "cap":
		if x, ok := args[0].(VSlice); ok {
			return VBV{x.Cap, true}
		}
	case "copy":
		dst := args[0].(VSlice)
		var srcArr, srcOff, srcLen *Term
		switch s := args[1].(type) {
		case VSlice:
			if s.Obj < 0 {
				return VBV{BV(64, 0), true}
			}
			srcArr, srcOff, srcLen = st.heap[s.Obj], s.Off, s.Len
		case VStr:
			srcArr, srcOff, srcLen = Barr(s.T), BV(64, 0), Blen(s.T)
		}
		n := Ite(BVUlt(dst.Len, srcLen), dst.Len, srcLen)
		if dst.Obj < 0 {
			return VBV{BV(64, 0), true}
		}
		old := st.heap[dst.Obj]
		if c, ok := n.U64(); ok && c <= 256 {
			arr := old
			for i := uint64(0); i < c; i++ {
				arr = Store(arr, BVAdd(dst.Off, BVU(64, i)), Select(srcArr, BVAdd(srcOff, BVU(64, i))))
			}
			st.heap[dst.Obj] = arr
		} else {
			st.heap[dst.Obj] = App("memcpy", SArr, old, dst.Off, srcArr, srcOff, n)
		}
		return VBV{n, true}
	case "append":
		return ex.appendModel(st, cc, args)
	}
	ex.note(st, "unmodelled-call:builtin %s on %T", name, args[0])
	sig := cc.Signature()
	if sig.Results().Len() == 1 {
		return ex.havoc(st, sig.Results().At(0).Type(), name)
	}
	return VOpaque{name}
}

func (ex *Exec) appendModel(st *State, cc *ssa.CallCommon, args []Value) Value {
	switch base := args[0].(type) {
	case VSlice:
		// append(a, b...): a fresh object holding a ++ b (the base is not used again on any path in scope;
		// see DESIGN 2.4 "append consumes its base")
		a := ex.snapshot(st, base)
		var b *Term
		switch s := args[1].(type) {
		case VSlice:
			b = ex.snapshot(st, s)
		case VStr:
			b = s.T
		}
		if b == nil {
			break
		}
		r := Cat(a, b)
		nilT := And(base.Nil, Eq(Blen(b), BV(64, 0)))
		out := ex.sliceOf(st, r, nilT)
		// capacity is at least the length; exact value is runtime-dependent
		cp := Fresh("cap", SBV(64))
		st.assume(And(BVUge(cp, out.Len), BVUle(cp, BVU(64, 1<<48))))
		st.assume(BVUle(out.Len, BVU(64, 1<<47)))
		ex.objs[out.Obj].Size = cp
		out.Cap = cp
		return out
	case VList:
		switch e := args[1].(type) {
		case VVals:
			l := base
			for _, v := range e.E {
				l = ex.listAppend(st, l, v)
			}
			return l
		}
	}
	ex.note(st, "unmodelled-call:append on %T/%T", args[0], args[1])
	return ex.havoc(st, cc.Signature().Results().At(0).Type(), "append")
}

// ---- lists of structs

type leaf struct {
	Path string
	Kind kind
	Sort string
	W    int
	Sgn  bool
}

func leavesOf(t types.Type, prefix string, out *[]leaf) {
	switch classify(t) {
	case kBool:
		*out = append(*out, leaf{prefix, kBool, SBool, 0, false})
	case kInt:
		w, s := intInfo(t)
		*out = append(*out, leaf{prefix, kInt, SBV(w), w, s})
	case kStr:
		*out = append(*out, leaf{prefix, kStr, SBytes, 0, false})
	case kBytes:
		*out = append(*out, leaf{prefix, kBytes, SBytes, 0, false})
		*out = append(*out, leaf{prefix + ".isnil", kBool, SBool, 0, false})
	case kBig:
		*out = append(*out, leaf{prefix + ".nil", kBool, SBool, 0, false})
		*out = append(*out, leaf{prefix + ".v", kInt, SBV(bigW), bigW, true})
	case kStruct:
		s := t.Underlying().(*types.Struct)
		for i := 0; i < s.NumFields(); i++ {
			p := s.Field(i).Name()
			if prefix != "" {
				p = prefix + "." + p
			}
			leavesOf(s.Field(i).Type(), p, out)
		}
	}
}

func (ex *Exec) emptyList(elem types.Type) VList {
	var ls []leaf
	leavesOf(elem, "", &ls)
	l := VList{ElemT: elem, Len: BV(64, 0), Cols: map[string]*Term{}}
	for _, lf := range ls {
		var def *Term
		switch {
		case lf.Sort == SBool:
			def = TFalse
		case lf.Sort == SBytes:
			def = EmptyBytes
		default:
			def = BV(lf.W, 0)
		}
		l.Cols[lf.Path] = ConstArr(SArray(SBV(64), lf.Sort), def)
	}
	return l
}

func (ex *Exec) freshList(st *State, elem types.Type, hint string) VList {
	var ls []leaf
	leavesOf(elem, "", &ls)
	l := VList{ElemT: elem, Len: Fresh(hint+".len", SBV(64)), Cols: map[string]*Term{}}
	st.assume(BVUle(l.Len, BVU(64, 1<<32)))
	for _, lf := range ls {
		col := Fresh(hint+"."+lf.Path, SArray(SBV(64), lf.Sort))
		l.Cols[lf.Path] = col
		if lf.Sort == SBytes {
			i := Var("q$li", SBV(64))
			st.assume(Forall([]*Term{i}, And(App("canon", SBool, Select(col, i)), BVUle(Blen(Select(col, i)), maxLen)), []*Term{Select(col, i)}))
		}
		if lf.Path != "" && strings.HasSuffix(lf.Path, ".v") && lf.W == bigW {
			i := Var("q$li", SBV(64))
			st.assume(Forall([]*Term{i}, bigInRange(Select(col, i)), []*Term{Select(col, i)}))
		}
	}
	return l
}

func (ex *Exec) listElem(st *State, l *VList, idx *Term) Value {
	return ex.buildFromCols(st, l.ElemT, "", func(path string) *Term { return Select(l.Cols[path], idx) })
}

func (ex *Exec) buildFromCols(st *State, t types.Type, prefix string, get func(string) *Term) Value {
	switch classify(t) {
	case kBool:
		return VBool{get(prefix)}
	case kInt:
		_, s := intInfo(t)
		return VBV{get(prefix), s}
	case kStr:
		return VStr{get(prefix)}
	case kBytes:
		return ex.sliceOf(st, get(prefix), get(prefix+".isnil"))
	case kBig:
		return VBig{Nil: get(prefix + ".nil"), V: get(prefix + ".v")}
	case kStruct:
		s := t.Underlying().(*types.Struct)
		out := VStruct{T: t}
		for i := 0; i < s.NumFields(); i++ {
			p := s.Field(i).Name()
			if prefix != "" {
				p = prefix + "." + p
			}
			out.F = append(out.F, ex.buildFromCols(st, s.Field(i).Type(), p, get))
		}
		return out
	}
	return VOpaque{"listelem"}
}

func (ex *Exec) leafVals(st *State, t types.Type, prefix string, v Value, out map[string]*Term) {
	switch classify(t) {
	case kBool:
		out[prefix] = v.(VBool).T
	case kInt:
		out[prefix] = v.(VBV).T
	case kStr:
		out[prefix] = v.(VStr).T
	case kBytes:
		s := v.(VSlice)
		out[prefix] = ex.snapshot(st, s)
		out[prefix+".isnil"] = s.Nil
	case kBig:
		b := v.(VBig)
		out[prefix+".nil"] = b.Nil
		out[prefix+".v"] = b.V
	case kStruct:
		s := t.Underlying().(*types.Struct)
		sv, ok := v.(VStruct)
		if !ok {
			return
		}
		for i := 0; i < s.NumFields(); i++ {
			p := s.Field(i).Name()
			if prefix != "" {
				p = prefix + "." + p
			}
			ex.leafVals(st, s.Field(i).Type(), p, sv.F[i], out)
		}
	}
}

func (ex *Exec) listAppend(st *State, l VList, v Value) VList {
	vals := map[string]*Term{}
	ex.leafVals(st, l.ElemT, "", v, vals)
	nl := VList{ElemT: l.ElemT, Len: BVAdd(l.Len, BV(64, 1)), Cols: map[string]*Term{}}
	for p, col := range l.Cols {
		if t, ok := vals[p]; ok {
			nl.Cols[p] = Store(col, l.Len, t)
		} else {
			nl.Cols[p] = col
		}
	}
	return nl
}

// ---- applying a callee's contract at a call site

func (ex *Exec) bindContract(c *Contract, fn *ssa.Function, args []Value) (map[string]Value, error) {
	vars := map[string]Value{}
	nparams := len(fn.Params)
	names := c.Params
	off := 0
	if fn.Signature.Recv() != nil {
		off = 1
		vars["$recv"] = args[0]
	}
	if len(names) != nparams-off {
		return nil, fmt.Errorf("contract %s names %d parameters, function has %d", c.Key, len(names), nparams-off)
	}
	for i, n := range names {
		vars[n] = args[off+i]
	}
	if len(c.Results) != fn.Signature.Results().Len() {
		return nil, fmt.Errorf("contract %s names %d results, function has %d", c.Key, len(c.Results), fn.Signature.Results().Len())
	}
	return vars, nil
}

func (ex *Exec) applyContract(st *State, fn *ssa.Function, c *Contract, args []Value, k cont) {
	vars, err := ex.bindContract(c, fn, args)
	if err != nil {
		ex.oblige(st, "binding", c.Key+"#binding", nil, TFalse, err.Error())
		return
	}
	pre := st.clone()
	// 1. requires -> obligations of the caller
	ctx := &EvalCtx{ex: ex, pre: pre, post: pre, vars: vars, bound: map[string]Value{}, evBase: len(pre.events), clBase: len(pre.calls)}
	for i, cl := range c.byKind("requires") {
		t, err := ctx.EvalBool(cl.E)
		if err != nil {
			ex.oblige(st, "binding", c.Key+"#binding", nil, TFalse, fmt.Sprintf("requires %d: %v", i, err))
			return
		}
		name := fmt.Sprintf("%s#requires@%s[%s]", fnName(ex.top), c.Key, cl.Label)
		ex.oblige(st, "requires", name, append([]string{"C20"}, cl.Props...), t, cl.Text)
		st.assume(t)
	}
	// 2. havoc what the callee may modify. A frame clause that is not part of this property's proof is not
	// assumed: everything is havocked instead.
	for _, cl := range c.byKind("modifies") {
		if !relevant(cl, ex.prop) {
			for i := range comps {
				st.abs[comps[i].Name] = Fresh("h."+comps[i].Name, comps[i].arraySort())
			}
			continue
		}
		for _, m := range cl.Mods {
			tgt := ctx.eval(m)
			cc, ok := tgt.(CComp)
			if !ok {
				// a fully resolved component: re-evaluate structurally
				cc = ex.modTarget(ctx, m)
			}
			for _, comp := range compsWithPrefix(cc.Prefix) {
				fv := Fresh("h."+comp.Name, compValSort(comp, len(cc.Keys)))
				if len(cc.Keys) == 0 {
					st.abs[comp.Name] = fv
				} else {
					st.abs[comp.Name] = storeNested(st.abs[comp.Name], cc.Keys, fv)
				}
			}
		}
	}
	// attestation-style in-place modification of byte parameters: "assigns p" havocs the bytes of p
	for _, cl := range c.byKind("assigns") {
		for _, m := range cl.Mods {
			if m.Op == "ident" {
				if s, ok := vars[m.Name].(VSlice); ok && s.Obj >= 0 {
					st.heap[s.Obj] = Fresh("assigned", SArr)
				}
			}
		}
	}
	// 3. fresh results
	sig := fn.Signature
	var res []Value
	for i := 0; i < sig.Results().Len(); i++ {
		rv := ex.fresh(st, sig.Results().At(i).Type(), c.Key+"."+c.Results[i], 0)
		res = append(res, rv)
		vars[c.Results[i]] = rv
	}
	// 4. emits / calls: fork on success so that logs stay concrete lists
	errIdx := -1
	for i, r := range res {
		if _, ok := r.(VErr); ok {
			errIdx = i
		}
	}
	emits, calls := relevantClauses(c.byKind("emits"), ex.prop), relevantClauses(c.byKind("calls"), ex.prop)
	if len(emits) < len(c.byKind("emits")) {
		st.evTaint = true
	}
	if len(calls) < len(c.byKind("calls")) {
		st.callTaint = true
	}
	branches := []*State{st}
	var succ []bool
	if errIdx >= 0 && (len(emits) > 0 || len(calls) > 0) {
		e := res[errIdx].(VErr).Is
		st2 := st.clone()
		st.assume(Not(e))
		st2.assume(e)
		branches = []*State{st, st2}
		succ = []bool{true, false}
	} else {
		succ = []bool{true}
	}
	for bi, bs := range branches {
		post := bs
		ectx := &EvalCtx{ex: ex, pre: pre, post: post, vars: vars, bound: map[string]Value{}, evBase: len(pre.events), clBase: len(pre.calls)}
		if succ[bi] {
			for _, cl := range emits {
				recs, err := ex.evalRecList(ectx, cl.E)
				if err != nil {
					ex.oblige(bs, "binding", c.Key+"#binding", nil, TFalse, "emits: "+err.Error())
					return
				}
				bs.events = append(bs.events, recs...)
			}
			for _, cl := range calls {
				recs, err := ex.evalRecList(ectx, cl.E)
				if err != nil {
					ex.oblige(bs, "binding", c.Key+"#binding", nil, TFalse, "calls: "+err.Error())
					return
				}
				bs.calls = append(bs.calls, recs...)
			}
		} else {
			if len(emits) > 0 {
				bs.evTaint = true
			}
			if len(calls) > 0 {
				bs.callTaint = true
			}
		}
		// number of EmitTypedEvent calls inside the callee is unknown to the caller: keep indices apart
		if len(emits) > 0 {
			bs.emitN += 100
		}
		// callee may have changed the external world
		if len(calls) > 0 {
			bs.ext = Fresh("ext", "Ext")
		}
		for _, cl := range c.byKind("ensures") {
			if !relevant(cl, ex.prop) {
				continue
			}
			t, err := ectx.EvalBool(cl.E)
			if err != nil {
				ex.oblige(bs, "binding", c.Key+"#binding", nil, TFalse, fmt.Sprintf("ensures[%s]: %v", cl.Label, err))
				return
			}
			bs.assume(t)
			for _, s := range ectx.side {
				bs.assume(s)
			}
			ectx.side = nil
		}
		if bs.infeasible() {
			continue
		}
		k(bs, res)
	}
}

func compValSort(c *Comp, nkeys int) string {
	s := c.ValSort
	for i := len(c.KeySorts) - 1; i >= nkeys; i-- {
		s = SArray(c.KeySorts[i], s)
	}
	return s
}

// modTarget evaluates a modifies target into a component prefix and keys.
func (ex *Exec) modTarget(ctx *EvalCtx, e *Expr) CComp {
	switch e.Op {
	case "ident":
		if e.Name == "st" {
			return CComp{}
		}
	case "field":
		b := ex.modTarget(ctx, e.Args[0])
		p := e.Name
		if b.Prefix != "" {
			p = b.Prefix + "." + e.Name
		}
		return CComp{Prefix: p, Keys: b.Keys}
	case "index":
		b := ex.modTarget(ctx, e.Args[0])
		cs := compsWithPrefix(b.Prefix)
		if len(cs) == 0 || len(cs[0].KeySorts) <= len(b.Keys) {
			fail("bad modifies target %s", e)
		}
		ks := cs[0].KeySorts[len(b.Keys)]
		iv := ctx.norm(ctx.eval(e.Args[1]))
		var kt *Term
		if ks == SBytes {
			kt = bytesTerm(iv)
		} else {
			kt = ctx.asBV(iv, bvWidth(ks))
		}
		return CComp{Prefix: b.Prefix, Keys: append(append([]*Term(nil), b.Keys...), kt)}
	}
	fail("bad modifies target %s", e)
	return CComp{}
}

func (ex *Exec) evalRecList(ctx *EvalCtx, e *Expr) (recs []Rec, err error) {
	defer func() {
		if r := recover(); r != nil {
			if ee, ok := r.(evalErr); ok {
				err = ee
				return
			}
			panic(r)
		}
	}()
	v := ctx.eval(e)
	l, ok := v.(CList)
	if !ok {
		return nil, fmt.Errorf("record list expected")
	}
	for _, it := range l.E {
		lit, ok := ctx.norm(it).(CLit)
		if !ok {
			return nil, fmt.Errorf("record literal expected")
		}
		r := Rec{Kind: lit.Name, Fields: map[string]Value{}, Order: lit.Order}
		for n, fv := range lit.Fields {
			r.Fields[n] = ctx.norm(fv)
		}
		recs = append(recs, r)
	}
	return recs, nil
}

func relevantClauses(cs []*Clause, prop string) []*Clause {
	var out []*Clause
	for _, c := range cs {
		if relevant(c, prop) {
			out = append(out, c)
		}
	}
	return out
}
