package main

// Discharging queries: race z3-new, cvc5 and z3 4.8 on one SMT-LIB text.

import (
	"bytes"
	"context"
	"fmt"
	"os"
	"os/exec"
	"path/filepath"
	"strings"
	"sync"
	"time"
)

type SolverResult struct {
	Status  string // unsat | sat | unknown
	Solver  string
	Seconds float64
	Model   string            // raw get-value output when sat
	All     map[string]string // per-solver status (thorough)
	Raw     string
	WallHit bool // some solver was stopped by the wall-clock backstop, not by its resource limit (a loaded machine)
}

type solverSpec struct {
	name string
	argv func(file string, timeoutMs int, seed int) []string
}

// phase 1 is a cheap wall-clock filter (z3 for a moment); what it cannot decide goes to phase 2, whose limits are
// deterministic, so a loaded machine changes how long a check takes, not what it answers
var phase1Spec = solverSpec{"z3-new", func(f string, ms, seed int) []string {
	return []string{"z3-new", fmt.Sprintf("-t:%d", ms), fmt.Sprintf("smt.random_seed=%d", seed), f}
}}

// Limits are deterministic resource limits (z3 rlimit, cvc5 --rlimit), so that the answer to a query does not depend
// on how loaded the machine is; the nominal time t (ms) is converted with the rates measured on this image (z3 about
// 2.5M units/s at the slow end, cvc5 about 50k units/s). The wall-clock limit is only a backstop, three times the
// nominal time.
var solverSpecs = []solverSpec{
	{"z3-new", func(f string, ms, seed int) []string {
		return []string{"z3-new", fmt.Sprintf("-t:%d", 3*ms), fmt.Sprintf("rlimit=%d", 2500*ms), fmt.Sprintf("smt.random_seed=%d", seed), f}
	}},
	{"cvc5", func(f string, ms, seed int) []string {
		return []string{"cvc5", "--lang", "smt2", fmt.Sprintf("--tlimit=%d", 3*ms), fmt.Sprintf("--rlimit=%d", 50*ms), fmt.Sprintf("--seed=%d", seed), "--produce-models", f}
	}},
	{"z3", func(f string, ms, seed int) []string {
		return []string{"z3", fmt.Sprintf("-t:%d", 3*ms), fmt.Sprintf("rlimit=%d", 2500*ms), fmt.Sprintf("smt.random_seed=%d", seed), f}
	}},
}

var (
	scratchDir  string
	solverSem   = make(chan struct{}, 16)
	querySeq    int
	querySeqMu  sync.Mutex
	solverSeed  int
	allSolvers  bool // (debugging) wait for all answers and compare
	crossCheck  bool // thorough: a second solver re-answers a sample of the queries z3 decided in phase 1
	crossN      int
	crossAgree  int
	crossOpen   int
	solverStats = map[string]*struct {
		N    int
		Secs float64
	}{}
	statsMu sync.Mutex
)

func initScratch() {
	base := os.Getenv("TMPDIR")
	if base == "" {
		base = "/tmp"
	}
	d, err := os.MkdirTemp(base, "govc-")
	if err != nil {
		panic(err)
	}
	scratchDir = d
}

func cleanupScratch() {
	if scratchDir != "" {
		os.RemoveAll(scratchDir)
	}
}

func runOneWall(ctx context.Context, sp solverSpec, file string, timeoutMs int) (status, out string, secs float64) {
	return runWith(ctx, sp, file, timeoutMs, timeoutMs+2000)
}

func runOne(ctx context.Context, sp solverSpec, file string, timeoutMs int) (status, out string, secs float64) {
	return runWith(ctx, sp, file, timeoutMs, 3*timeoutMs+2000)
}

func runWith(ctx context.Context, sp solverSpec, file string, timeoutMs, killMs int) (status, out string, secs float64) {
	argv := sp.argv(file, timeoutMs, solverSeed)
	t0 := time.Now()
	cctx, cancel := context.WithTimeout(ctx, time.Duration(killMs)*time.Millisecond)
	defer cancel()
	cmd := exec.CommandContext(cctx, argv[0], argv[1:]...)
	var buf bytes.Buffer
	cmd.Stdout = &buf
	cmd.Stderr = &buf
	_ = cmd.Run()
	secs = time.Since(t0).Seconds()
	out = buf.String()
	first := strings.TrimSpace(strings.SplitN(out, "\n", 2)[0])
	switch {
	case first == "unsat" || first == "sat":
		status = first
	case strings.HasPrefix(first, "(error") || strings.Contains(first, "Parse Error") || strings.Contains(first, "rror:"):
		status = "error"
	default:
		status = "unknown"
	}
	return
}

// Solve discharges one query. Phase 1: z3-new alone with a short timeout (it decides almost everything in
// well under a second). Phase 2, if undecided: z3-new, cvc5 and z3 4.8 raced with the full timeout, fewer at a time.
// solveHint: sibling queries (path instances of one obligation) tend to be decided by the same solver; the one that
// decided the previous sibling goes first.
var (
	prefMu    sync.Mutex
	preferred = map[string]int{}
)

func Solve(text string, timeoutMs int) SolverResult { return SolveHint(text, timeoutMs, "") }

// SolveQuick runs phase 1 only (used for the sliced variant of a query: the unsliced one follows if this fails).
func SolveQuick(text string, timeoutMs int) SolverResult { return SolveHint(text, timeoutMs, "\x00quick") }

// SolveSliced: both phases, for the sliced variant of a query; an undecided slice says nothing about the obligation
// (the unsliced query follows), so it does not count as a failed sibling.
func SolveSliced(text string, timeoutMs int, hint string) SolverResult {
	return SolveHint(text, timeoutMs, "\x01"+hint)
}

func SolveHint(text string, timeoutMs int, hint string) SolverResult {
	markFail := true
	if strings.HasPrefix(hint, "\x01") {
		hint, markFail = hint[1:], false
	}
	querySeqMu.Lock()
	querySeq++
	n := querySeq
	querySeqMu.Unlock()
	file := filepath.Join(scratchDir, fmt.Sprintf("q%d.smt2", n))
	if err := os.WriteFile(file, []byte(text), 0o644); err != nil {
		panic(err)
	}
	defer os.Remove(file)
	res := SolverResult{Status: "unknown", All: map[string]string{}}
	var raws []string
	record := func() {
		statsMu.Lock()
		s := solverStats[res.Solver]
		if s == nil {
			s = &struct {
				N    int
				Secs float64
			}{}
			solverStats[res.Solver] = s
		}
		s.N++
		s.Secs += res.Seconds
		statsMu.Unlock()
	}
	if !allSolvers {
		t1 := 2500
		if timeoutMs < t1 {
			t1 = timeoutMs
		}
		first := phase1Spec
		solverSem <- struct{}{}
		st, out, secs := runOneWall(context.Background(), first, file, t1)
		<-solverSem
		res.All[first.name] = st
		raws = append(raws, first.name+"(phase1): "+strings.TrimSpace(firstN(out, 200)))
		if st == "unsat" || st == "sat" {
			res.Status, res.Solver, res.Seconds = st, first.name, secs
			if st == "sat" {
				if i := strings.Index(out, "\n"); i >= 0 {
					res.Model = out[i+1:]
				}
			}
			if crossCheck && st == "unsat" {
				statsMu.Lock()
				do := crossN < 300
				if do {
					crossN++
				}
				statsMu.Unlock()
				if do {
					solverSem <- struct{}{}
					st2, out2, _ := runOne(context.Background(), solverSpecs[1], file, 3000)
					<-solverSem
					raws = append(raws, "cross-check "+solverSpecs[1].name+": "+strings.TrimSpace(firstN(out2, 100)))
					statsMu.Lock()
					switch st2 {
					case "unsat":
						crossAgree++
					case "sat":
						res.Status = "disagree"
					default:
						crossOpen++
					}
					statsMu.Unlock()
				}
			}
			res.Raw = strings.Join(raws, " | ")
			record()
			return res
		}
	}
	if hint == "\x00quick" {
		res.Raw = strings.Join(raws, " | ")
		return res
	}
	// the first path instance of an obligation to need phase 2 goes alone; its siblings wait for its verdict: if it
	// stays undecided the obligation has failed and they need not burn their limits as well
	leadKey := hint
	if !markFail {
		leadKey = "sliced:" + hint
	}
	if hint != "" {
		prefMu.Lock()
		ch, exists := leaders[leadKey]
		if !exists {
			ch = make(chan struct{})
			leaders[leadKey] = ch
		}
		prefMu.Unlock()
		if exists {
			<-ch
		} else {
			defer close(ch)
		}
		prefMu.Lock()
		failed := failedHint[hint] || failedHint[leadKey]
		prefMu.Unlock()
		if failed {
			res.Raw = strings.Join(raws, " | ") + " | phase 2 skipped: a sibling instance of this obligation is already undecided"
			return res
		}
	}
	phase2Sem <- struct{}{}
	defer func() { <-phase2Sem }()
	if os.Getenv("GOVC_TRACE") != "" {
		t0 := time.Now()
		fmt.Fprintf(os.Stderr, "[trace %s] phase2 start %s\n", t0.Format("15:04:05"), leadKey)
		defer func() { fmt.Fprintf(os.Stderr, "[trace %s] phase2 end %s after %.0fs\n", time.Now().Format("15:04:05"), leadKey, time.Since(t0).Seconds()) }()
	}
	ctx, cancel := context.WithCancel(context.Background())
	defer cancel()
	type ans struct {
		status, out, name string
		secs              float64
	}
	specs := solverSpecs
	ch := make(chan ans, len(specs))
	for _, sp := range specs {
		sp := sp
		go func() {
			st, out, secs := runOne(ctx, sp, file, timeoutMs)
			ch <- ans{st, out, sp.name, secs}
		}()
	}
	got := 0
	for got < len(specs) {
		a := <-ch
		got++
		res.All[a.name] = a.status
		if a.status != "unsat" && a.status != "sat" && a.secs*1000 >= 0.9*float64(3*timeoutMs) {
			res.WallHit = true
		}
		raws = append(raws, a.name+": "+strings.TrimSpace(firstN(a.out, 300)))
		if a.status == "error" && res.Status == "unknown" {
			res.Status = "error"
		}
		if a.status == "unsat" || a.status == "sat" {
			if res.Status == "error" {
				res.Status = "unknown"
			}
			if res.Status == "unknown" {
				res.Status = a.status
				res.Solver = a.name
				res.Seconds = a.secs
				if a.status == "sat" {
					if i := strings.Index(a.out, "\n"); i >= 0 {
						res.Model = a.out[i+1:]
					}
				}
				if !allSolvers {
					break
				}
			} else if res.Status != a.status {
				res.Status = "disagree"
			}
		}
	}
	res.Raw = strings.Join(raws, " | ")
	record()
	if hint != "" && res.Status != "unsat" && res.Status != "sat" {
		prefMu.Lock()
		failedHint[leadKey] = true
		prefMu.Unlock()
	}
	return res
}

var failedHint = map[string]bool{}
var leaders = map[string]chan struct{}{}

var phase2Sem = make(chan struct{}, 5)

func firstN(s string, n int) string {
	if len(s) > n {
		return s[:n]
	}
	return s
}
