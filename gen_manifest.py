#!/usr/bin/env python3
"""Writes MANIFEST.json from the table below (claimed checks) and properties.jsonl (everything else -> not_applicable)."""
import json, subprocess
props = [json.loads(l) for l in open('/verif/properties.jsonl')]
ROLLBACK = "Cosmos SDK runTx discards the store/event/dependency effects of a message whose handler errs or panics; msg.From is the verified signer"
L0 = "L0 models of store, codec, bech32, keccak, strings, big.Int, bank and fiat-token-factory (tool/models.go, prelude axioms in tool/spec.go) are assumed, not proved"
claimed = {
 # id: (text, note, technique)
 "C02": ("ReceiveMessage is proved (all inputs, all states) to succeed only for an unused (source,nonce) pair and to mark exactly that pair; UsedNonceKey injectivity and Get/SetUsedNonce are proved against the raw store; every other handler's frame excludes usedNonces. History claim = induction over these per-handler contracts.", ROLLBACK + "; " + L0),
 "C03": ("ReceiveMessage carries an exact (<==>) success condition written from the statement with literal wire offsets; every path of the real function is checked against it for symbolic message bytes, state and dependency outcomes.", "attestation validity is the uninterpreted predicate validAtt until C01's verifier contract is proved (trusted contract); " + L0 + "; " + ROLLBACK),
 "C04": ("Call-log and event-log postconditions of ReceiveMessage (exactly one Mint with recipient bytes [12:32] of the mint-recipient field, 256-bit amount, lower-cased linked denom, module as requester; MintAndWithdraw/MessageReceived fields) plus calls==[] clauses on the 24 other handlers.", "the fiat-token-factory does what a Mint request says; sums over histories follow from the per-step clauses by induction (not mechanised); " + L0),
 "C05": ("depositForBurn / DepositForBurn[WithCaller] call-log (BankSend from the depositor of exactly the coin, Burn of the same coin in the module's name) and emitted-message clauses; SendMessage[WithCaller] sender = pad32(submitter); replacements make no call; all other handlers calls==[].", "bank / fiat-token-factory contracts; sender padding stated for what copy(dst[12:],addr) does; " + L0 + "; " + ROLLBACK),
 "C06": ("sendMessage, SendMessage[WithCaller], depositForBurn and the replacements are proved to emit exactly encMessage(...)/encBurn(...) of the requested fields, layouts written with literal offsets; Message.Bytes/BurnMessage.Bytes proved against the same layout functions.", "the 'replacement names the same burn token as the deposit event' sentence is not yet expressed (see DESIGN F7); " + L0),
 "C07": ("ReserveAndIncrementNonce proved against the raw store (returns old counter, stores old+1 mod 2^64); send/deposit contracts stamp and return that value and advance the counter by exactly one; replacements reuse the original nonce and have an empty frame; all other handlers' frames exclude nextNonce.", "arithmetic modulo 2^64; failed attempts consume nothing by " + ROLLBACK),
 "C08": ("depositForBurn and both handlers carry an exact (<==>) success condition (amount as 264-bit signed vector, limit compare, denom fold-equality, pause flags, body size, recipient/caller shape, dependency outcomes), checked on every path.", "precondition !amount.isnil and validDenom(burnToken) are required by the contract (C20 reports them); " + L0),
 "C09": ("ReplaceMessage / ReplaceDepositForBurn: exact success conditions, emitted replacement = encMessage of the original's nonce/domains/sender/recipient with new caller/body (burn token, amount, depositor kept), calls==[], frame = none.", "attestation validity as in C03; " + L0),
 "C10": ("18 privileged handlers: wrong submitter ==> error with state, events and calls unchanged; success ==> submitter equals the stored role; exact success condition (total).", ROLLBACK + "; getters require the four role slots to be set (genesis)"),
 "C11": ("Role handlers' effect clauses (pending slot set / owner set and pending cleared / single slot written, address validated) and frames of all 25 handlers excluding role slots they do not name.", "bech32 validity is an uninterpreted predicate; lifecycle over histories = induction over the per-handler contracts (not mechanised)"),
 "C12": ("Pause conditions are part of the exact success conditions of the 8 flows; the 4 pause handlers set exactly their flag (frame); the 18 admin 'total' clauses do not mention either flag.", L0),
 "C13": ("enable/disable/update-threshold effect clauses with exact uint32 truncation; frames of all other handlers exclude attesters, nAtt and threshold.", "nAtt is the ghost cardinal of the attester prefix range (L0 store model); the inductive invariant lemma over the three contracts is not yet mechanised"),
 "C14": ("dependency failure ==> handler error (depFails(k) free booleans, every subset), late validation failures after the burn still err (exact success condition), success ==> both calls made and message emitted.", "the 'after rollback everything is as before' half is the SDK's runTx cache: assumed, not proved"),
 "C15": ("modifies clause per handler (25) expanded to one frame obligation per abstract state component; accessors (35) proved at raw-key level incl. key disjointness between all 15 key shapes.", ROLLBACK + "; queries/export not yet under contract"),
 "C16": ("Message/BurnMessage Parse and Bytes proved against literal-offset layout functions for all lengths; four round-trip lemmas proved over the layout functions.", "big.Int SetBytes/FillBytes and binary.BigEndian models (L0); RemoteTokenPadded not yet under contract"),
}
checks = []
for p in props:
    i = p['id']
    if i not in claimed: continue
    text, note = claimed[i]
    checks.append({
      "property_id": i, "quick_cmd": f"./bin/check {i} quick", "thorough_cmd": f"./bin/check {i} thorough",
      "evidence_file": f"/verif/evidence/{i}.json", "replay_cmd_template": "./bin/check --replay {path}", "engine": "govc",
      "level_claimed": {"category": "proof", "text": text, "design_ref": "DESIGN.md section 4 " + i},
      "level_note": note,
      "technique": "contract-based deductive verification: contracts in //go:build verif comment files, VCs by symbolic execution of go/ssa, discharged by z3/cvc5",
    })
na = [{"property_id": p['id'], "reason": "check not built yet (framework under construction; see DESIGN.md section 7 build order)"} for p in props if p['id'] not in claimed]
commits = subprocess.run(['git','-C','/repo','log','--format=%H','--grep=^verif:'],capture_output=True,text=True).stdout.split()
m = {"version": 1, "setup_cmd": "./setup.sh",
 "hooks": {"guard": "verif", "enable": "-tags verif (x/cctp/**/verif_contracts.go are //go:build verif, comment-only contract files read by govc)",
           "baseline_off_cmd": "cd /repo && GOWORK=off GOFLAGS=-mod=readonly go test -vet=off -count=1 ./...", "source_commits": commits, "add_only": True},
 "engines": [{"name": "govc", "path": "tool/", "serves_properties": sorted(claimed), "kind_free_text": "VC generator over go/ssa of /repo's working tree + contracts in //go:build verif comment files; obligations discharged by racing z3-new 5.1.0 / cvc5 1.0.3 / z3 4.8.12"}],
 "checks": checks, "not_applicable": na,
 "notes": "Per-property cone: functions with clauses tagged with the property, plus transitively every contracted callee; callee clauses are assumed at call sites and checked under the properties they are tagged with (untagged = every property)."}
json.dump(m, open('/verif/MANIFEST.json','w'), indent=1)
print(len(checks), 'claimed', len(na), 'n/a')
