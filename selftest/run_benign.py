#!/usr/bin/env python3
"""Must-pass corpus: behaviour-preserving edits of /repo (selftest/benign/*.patch, written by mk_benign.py).
Each is applied to a scratch copy, must build, and every check named in the file name must exit 0 without a
VIOLATION line.  usage: run_benign.py [--only SUBSTR] [--jobs N] [--all-checks]"""
import os, sys, subprocess, tempfile, shutil, glob, concurrent.futures as cf, time
here = os.path.dirname(os.path.abspath(__file__))
args = sys.argv[1:]
only = args[args.index('--only')+1] if '--only' in args else ''
jobs = int(args[args.index('--jobs')+1]) if '--jobs' in args else 2
allchecks = '--all-checks' in args
env = dict(os.environ, GOWORK='off', GOFLAGS='-mod=readonly', GOPROXY='off', GOSUMDB='off', GOTOOLCHAIN='local')
import json, re, fnmatch
PROPS = [json.loads(l) for l in open('/verif/properties.jsonl')]
def anchored(patch):
    """checks whose anchored files a patch touches (plus the three whole-module ones)"""
    files = set(re.findall(r'^\+\+\+ b/(\S+)', open(patch).read(), re.M))
    out = {'C15', 'C18', 'C20'}
    for p in PROPS:
        for a in p['anchors']['files']:
            a = a.split(' ')[0]
            if any(f == a or fnmatch.fnmatch(f, a) for f in files):
                out.add(p['id'])
    return sorted(out)
def run(patch):
    name = os.path.basename(patch)[:-6]
    if allchecks:
        props = ['C%02d' % i for i in range(1, 21)]
    elif name.startswith('ALL-') or name.startswith('XFAIL-'):
        props = anchored(patch)
    else:
        props = name.split('-')[0].split('+')
    tmp = os.environ.get('TMPDIR', '/tmp')
    d = tempfile.mkdtemp(prefix='verif-ben.', dir=tmp)
    out = tempfile.mkdtemp(prefix='verif-out.', dir=tmp)
    try:
        subprocess.run(['rsync', '-a', '--exclude', '.git', '/repo/', d + '/'], check=True)
        r = subprocess.run(['patch', '-p1', '-s', '-i', patch], cwd=d, capture_output=True, text=True)
        if r.returncode != 0:
            return name, 'PATCH-FAILED', r.stdout + r.stderr
        b = subprocess.run(['go', 'build', './x/cctp/...'], cwd=d, env=env, capture_output=True, text=True)
        if b.returncode != 0:
            return name, 'DOES-NOT-BUILD', b.stderr[-400:]
        bad = []
        t0 = time.time()
        for p in props:
            c = subprocess.run(['/verif/bin/govc', 'check', p, 'quick'], env=dict(os.environ, VERIF_REPO=d, VERIF_OUT=out), capture_output=True, text=True)
            if c.returncode != 0 or 'VIOLATION' in c.stdout:
                obl = [l.strip()[:160] for l in c.stdout.splitlines() if l.startswith('  obligation')]
                bad.append(p + ': ' + '; '.join(obl[:4]))
        st = 'FALSE-ALARM' if bad else 'QUIET'
        if name.startswith('XFAIL-'):
            st = 'KNOWN-ALARM' if bad else 'QUIET'  # documented exception (DESIGN section 7)
        return name, st, '%.0fs ' % (time.time()-t0) + ' || '.join(bad)
    finally:
        shutil.rmtree(d, ignore_errors=True)
        shutil.rmtree(out, ignore_errors=True)
frm = args[args.index('--from')+1] if '--from' in args else ''
patches = sorted(p for p in glob.glob(os.path.join(here, 'benign', '*.patch')) if only in p and os.path.basename(p) >= frm)
nbad = 0
with cf.ThreadPoolExecutor(jobs) as ex:
    for name, st, info in ex.map(run, patches):
        print('%-12s %-55s %s' % (st, name, info), flush=True)
        if st not in ('QUIET', 'KNOWN-ALARM'):
            nbad += 1
print('%d benign edits, %d alarms' % (len(patches), nbad))
sys.exit(1 if nbad else 0)
