#!/bin/sh
# Re-run the property check of every seeded change (seeded/<id>/patch.diff) on a scratch copy; each must be detected.
# usage: recheck_seeds.sh [substring]
bad=0
for d in /verif/seeded/*${1}*/; do
  id=$(basename "$d"); p=${id%%-*}
  out=$(mktemp -d "${TMPDIR:-/tmp}/verif-out.XXXXXX")
  t0=$(date +%s)
  r=$(VERIF_OUT=$out /verif/selftest/run_mutant.sh "$d/patch.diff" check "$p" quick 2>&1 | grep -c '^VIOLATION')
  rm -rf "$out"
  if [ "$r" -gt 0 ]; then echo "DETECTED $id $(( $(date +%s) - t0 ))s"; else echo "MISSED   $id"; bad=$((bad+1)); fi
done
echo "$bad seeds not detected"
[ "$bad" -eq 0 ]
