#!/usr/bin/env python3
"""eval_seed.py ID PROP [PROP...]: confirm the seeded change in /tmp/wt-ID/seed on a scratch copy of /repo
(builds, existing tests pass, demo fails with / passes without), then run the given property checks on it."""
import os, sys, subprocess, tempfile, shutil, glob, re, json
sid = sys.argv[1]; props = sys.argv[2:]
src = '/tmp/wt-%s/seed' % sid
dst = '/verif/seeded/%s' % sid
os.makedirs(dst, exist_ok=True)
for f in os.listdir(src):
    shutil.copy(os.path.join(src, f), dst)
env = dict(os.environ, GOWORK='off', GOFLAGS='-mod=readonly', GOPROXY='off', GOSUMDB='off', GOTOOLCHAIN='local')
d = tempfile.mkdtemp(prefix='verif-seed.', dir='/tmp')
out = tempfile.mkdtemp(prefix='verif-out.', dir='/tmp')
res = {}
try:
    subprocess.run(['rsync', '-a', '--exclude', '.git', '/repo/', d + '/'], check=True)
    demo = [f for f in os.listdir(dst) if f.endswith('_test.go')][0]
    head = open(os.path.join(dst, demo)).read(2000)
    m = re.search(r'(x/cctp[\w/]*)', head)
    pkgdir = m.group(1) if m else 'x/cctp/keeper'
    if not os.path.isdir(os.path.join(d, pkgdir)): pkgdir = 'x/cctp/keeper'
    def run(args, **kw): return subprocess.run(args, cwd=d, env=env, capture_output=True, text=True, **kw)
    # demo on unchanged
    shutil.copy(os.path.join(dst, demo), os.path.join(d, pkgdir, 'zz_seed_demo_test.go'))
    r = run(['go', 'test', '-vet=off', '-count=1', './' + pkgdir + '/'])
    res['demo_on_unchanged'] = 'pass' if r.returncode == 0 else 'FAIL ' + r.stdout[-300:]
    os.remove(os.path.join(d, pkgdir, 'zz_seed_demo_test.go'))
    p = run(['patch', '-p1', '-s', '-i', os.path.join(dst, 'patch.diff')])
    res['patch'] = 'ok' if p.returncode == 0 else 'FAILED ' + p.stdout + p.stderr
    b = run(['go', 'build', './...'])
    res['build'] = 'ok' if b.returncode == 0 else 'FAILED ' + b.stderr[-300:]
    t = run(['go', 'test', '-vet=off', '-count=1', './x/cctp/...'])
    res['existing_tests_with_change'] = 'pass' if t.returncode == 0 else 'FAIL ' + t.stdout[-400:]
    shutil.copy(os.path.join(dst, demo), os.path.join(d, pkgdir, 'zz_seed_demo_test.go'))
    r = run(['go', 'test', '-vet=off', '-count=1', './' + pkgdir + '/'])
    res['demo_with_change'] = 'fails (as required)' if r.returncode != 0 else 'PASSES (bad)'
    os.remove(os.path.join(d, pkgdir, 'zz_seed_demo_test.go'))
    for prop in props:
        c = subprocess.run(['/verif/bin/govc', 'check', prop, 'quick'], env=dict(os.environ, VERIF_REPO=d, VERIF_OUT=out), capture_output=True, text=True)
        obl = [l.strip()[:160] for l in c.stdout.splitlines() if l.startswith('  obligation')]
        res['check_' + prop] = ('DETECTED' if c.returncode == 1 else 'MISSED') + ' ' + '; '.join(obl[:3])
finally:
    shutil.rmtree(d, ignore_errors=True); shutil.rmtree(out, ignore_errors=True)
print(json.dumps(res, indent=1))
json.dump(res, open(os.path.join(dst, 'confirmation.json'), 'w'), indent=1)
