#!/bin/sh
# usage: run_mutant.sh <patch> <govc args...>   — applies patch to a scratch copy of /repo and runs govc on it
set -e
patch=$(readlink -f "$1"); shift
d=$(mktemp -d "${TMPDIR:-/tmp}/verif-mut.XXXXXX")
trap 'rm -rf "$d"' EXIT
rsync -a --exclude .git /repo/ "$d/"
(cd "$d" && patch -p1 -s < "$patch")
VERIF_REPO="$d" /verif/bin/govc "$@"
