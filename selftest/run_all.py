#!/usr/bin/env python3
"""Must-fail corpus: apply each mutant to a scratch copy of /repo, check it still builds (optionally: still
passes the pinned tests), run the property check named by the file's prefix and require a VIOLATION.
usage: run_all.py [--tests] [--only SUBSTR] [--jobs N]"""
import os, sys, subprocess, tempfile, shutil, glob, json, concurrent.futures as cf, time
here = os.path.dirname(os.path.abspath(__file__))
args = sys.argv[1:]
tests = '--tests' in args
only = args[args.index('--only')+1] if '--only' in args else ''
jobs = int(args[args.index('--jobs')+1]) if '--jobs' in args else 4
env = dict(os.environ, GOWORK='off', GOFLAGS='-mod=readonly', GOPROXY='off', GOSUMDB='off', GOTOOLCHAIN='local')
def run(patch):
    name = os.path.basename(patch)[:-6]
    prop = name.split('-')[0]
    tmp = os.environ.get('TMPDIR', '/tmp')
    d = tempfile.mkdtemp(prefix='verif-mut.', dir=tmp)
    out = tempfile.mkdtemp(prefix='verif-out.', dir=tmp)
    try:
        subprocess.run(['rsync', '-a', '--exclude', '.git', '/repo/', d + '/'], check=True)
        r = subprocess.run(['patch', '-p1', '-s', '-i', patch], cwd=d, capture_output=True, text=True)
        if r.returncode != 0:
            return name, 'PATCH-FAILED', r.stdout + r.stderr
        b = subprocess.run(['go', 'build', './x/cctp/...'], cwd=d, env=env, capture_output=True, text=True)
        if b.returncode != 0:
            return name, 'DOES-NOT-BUILD', b.stderr[-400:]
        if tests:
            t = subprocess.run(['go', 'test', '-vet=off', '-count=1', './x/cctp/...'], cwd=d, env=env, capture_output=True, text=True)
            if t.returncode != 0:
                return name, 'KILLED-BY-TESTS', t.stdout[-300:]
        t0 = time.time()
        c = subprocess.run(['/verif/bin/govc', 'check', prop, 'quick'], env=dict(os.environ, VERIF_REPO=d, VERIF_OUT=out), capture_output=True, text=True)
        viol = [l for l in c.stdout.splitlines() if l.startswith('VIOLATION')]
        obl = [l.strip() for l in c.stdout.splitlines() if l.startswith('  obligation')]
        st = 'DETECTED' if c.returncode == 1 and viol else 'MISSED'
        return name, st, '%.0fs ' % (time.time()-t0) + '; '.join(o[:110] for o in obl[:3])
    finally:
        shutil.rmtree(d, ignore_errors=True)
        shutil.rmtree(out, ignore_errors=True)
patches = sorted(p for p in glob.glob(os.path.join(here, 'mutants', '*.patch')) if only in p)
bad = 0
with cf.ThreadPoolExecutor(jobs) as ex:
    for name, st, info in ex.map(run, patches):
        print('%-15s %-40s %s' % (st, name, info), flush=True)
        if st != 'DETECTED':
            bad += 1
print('%d mutants, %d not detected' % (len(patches), bad))
sys.exit(1 if bad else 0)
