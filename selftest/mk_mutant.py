#!/usr/bin/env python3
"""mk_mutant.py NAME FILE OLD NEW [FILE OLD NEW ...] : writes selftest/mutants/NAME.patch from a scratch copy (never edits /repo)."""
import sys, os, subprocess, tempfile, shutil
name = sys.argv[1]; triples = sys.argv[2:]
d = tempfile.mkdtemp(prefix='verif-mk.', dir=os.environ.get('TMPDIR','/tmp'))
try:
    diffs = []
    for i in range(0, len(triples), 3):
        f, old, new = triples[i:i+3]
        src = open('/repo/'+f).read()
        os.makedirs(os.path.join(d, 'a', os.path.dirname(f)), exist_ok=True)
        os.makedirs(os.path.join(d, 'b', os.path.dirname(f)), exist_ok=True)
        if not os.path.exists(os.path.join(d,'a',f)):
            open(os.path.join(d,'a',f),'w').write(src); open(os.path.join(d,'b',f),'w').write(src)
        cur = open(os.path.join(d,'b',f)).read()
        assert old in cur, (name, f, old)
        open(os.path.join(d,'b',f),'w').write(cur.replace(old,new,1))
    out = subprocess.run(['diff','-ruN','a','b'],cwd=d,capture_output=True,text=True).stdout
    open(os.path.join(os.path.dirname(os.path.abspath(__file__)),'mutants',name+'.patch'),'w').write(out)
    print('wrote', name, len(out.splitlines()), 'lines')
finally:
    shutil.rmtree(d)
