#!/bin/sh
# usage: matrix.sh <patch>...  : applies each patch to a scratch copy of /repo and runs all 20 quick checks;
# prints which properties' checks report a violation.
for patch in "$@"; do
  patch=$(readlink -f "$patch")
  d=$(mktemp -d "${TMPDIR:-/tmp}/verif-mut.XXXXXX"); out=$(mktemp -d "${TMPDIR:-/tmp}/verif-out.XXXXXX")
  rsync -a --exclude .git /repo/ "$d/"
  if ! (cd "$d" && patch -p1 -s < "$patch"); then echo "$(basename $patch): PATCH-FAILED"; rm -rf "$d" "$out"; continue; fi
  alarms=""
  for i in 01 02 03 04 05 06 07 08 09 10 11 12 13 14 15 16 17 18 19 20; do
    if VERIF_REPO="$d" VERIF_OUT="$out" /verif/bin/govc check C$i quick 2>&1 | grep -q '^VIOLATION'; then alarms="$alarms C$i"; fi
  done
  echo "$(basename $patch): alarms:${alarms:- none}"
  rm -rf "$d" "$out"
done
