#!/usr/bin/env python3
"""Writes selftest/benign/*.patch: behaviour-preserving edits of /repo on which every check must stay green.
File name = <checks joined by +>-<description>.patch ; built from scratch copies, /repo is never edited."""
import subprocess, sys, os
here = os.path.dirname(os.path.abspath(__file__))
K = 'x/cctp/keeper/'; T = 'x/cctp/types/'
def mk(name, *tr):
    subprocess.run([os.path.join(here, 'mk_mutant.py'), '../benign/' + name, *tr], check=True)

# ---- renamed locals
att = K + 'attestation.go'
src = open('/repo/' + att).read()
body = src[src.index('func VerifyAttestationSignatures'):]
nb = body
for a, b in [('latestECDSA', 'prevKey'), ('recoveredECSDA', 'curKey'), ('recoveredKey', 'rk'), ('contains', 'isAttester'), ('signature[', 'sig['), ('signature)', 'sig)'), ('signature :=', 'sig :=')]:
    nb = nb.replace(a, b)
nb = nb.replace('for i := uint32(0); i < signatureThreshold; i++ {', 'for idx := uint32(0); idx < signatureThreshold; idx++ {').replace('start := int(i) *', 'start := int(idx) *')
nb = nb.replace('for _, key := range publicKeys {', 'for _, pk := range publicKeys {').replace('common.FromHex(key.Attester)', 'common.FromHex(pk.Attester)')
mk('C01+C20-rename-locals-verify', att, body, nb)

mk('C01+C19-rename-locals-getall', K + 'attesters.go',
   '(list []types.Attester) {\n\tadapter := runtime.KVStoreAdapter(k.storeService.OpenKVStore(ctx))\n\tstore := prefix.NewStore(adapter, types.KeyPrefix(types.AttesterKeyPrefix))\n\titerator := store.Iterator(nil, nil)\n\n\tdefer iterator.Close()\n\n\tfor ; iterator.Valid(); iterator.Next() {\n\t\tvar val types.Attester\n\t\tk.cdc.MustUnmarshal(iterator.Value(), &val)\n\t\tlist = append(list, val)\n\t}',
   '(out []types.Attester) {\n\tadapter := runtime.KVStoreAdapter(k.storeService.OpenKVStore(ctx))\n\tst := prefix.NewStore(adapter, types.KeyPrefix(types.AttesterKeyPrefix))\n\tit := st.Iterator(nil, nil)\n\n\tdefer it.Close()\n\n\tfor ; it.Valid(); it.Next() {\n\t\tvar a types.Attester\n\t\tk.cdc.MustUnmarshal(it.Value(), &a)\n\t\tout = append(out, a)\n\t}')

g = T + 'genesis.go'
gs = open('/repo/' + g).read()
ng = gs
for a, b in [('attesterIndexMap', 'seenAttesters'), ('perMessageBurnLimitIndexMap', 'seenLimits'), ('tokenPairIndexMap', 'seenPairs'), ('usedNonceIndexMap', 'seenNonces'), ('tokenMessengerIndexMap', 'seenMessengers')]:
    ng = ng.replace(a, b)
mk('C17-rename-locals-validate', g, gs, ng)

mk('C16+C19-rename-locals-padded', T + 'token_pair.go',
   'for i := 0; i < BurnTokenLen-len(remoteToken); i++ {\n\t\tremoteTokenPadded[i] = 0', 'for pos := 0; pos < BurnTokenLen-len(remoteToken); pos++ {\n\t\tremoteTokenPadded[pos] = 0',
   T + 'token_pair.go', 'remoteToken, err := hex.DecodeString', 'raw, err := hex.DecodeString',
   T + 'token_pair.go', 'if len(remoteToken) > BurnTokenLen', 'if len(raw) > BurnTokenLen',
   T + 'token_pair.go', 'BurnTokenLen-len(remoteToken); pos++', 'BurnTokenLen-len(raw); pos++',
   T + 'token_pair.go', 'copy(remoteTokenPadded[BurnTokenLen-len(remoteToken):], remoteToken)', 'copy(remoteTokenPadded[BurnTokenLen-len(raw):], raw)')

# ---- reordered independent checks, extracted helpers, changed messages
r = K + 'msg_server_receive_message.go'
rs = open('/repo/' + r).read()
dom = rs[rs.index('\t// validate domain'):rs.index('\t// validate destination caller')]
ver = rs[rs.index('\t// validate version'):rs.index('\t// validate nonce is available')]
nr = rs.replace(ver, '').replace(dom, ver + dom)
mk('C02+C03+C04+C12-receive-version-before-domain', r, rs, nr)

mk('C03+C04+C12-receive-denom-local', r,
   '\t\tmsgMint := fiattokenfactorytypes.MsgMint{', '\t\tlocalDenom := strings.ToLower(tokenPair.LocalToken)\n\t\tmsgMint := fiattokenfactorytypes.MsgMint{',
   r, '\t\t\t\tDenom:  strings.ToLower(tokenPair.LocalToken),', '\t\t\t\tDenom:  localDenom,',
   r, '\t\t\tMintToken:     strings.ToLower(tokenPair.LocalToken),', '\t\t\tMintToken:     localDenom,')

caller = rs[rs.index('\t// validate destination caller'):rs.index('\t// validate version')]
helper = '''
// checkDestinationCaller enforces the destination caller restriction of a message.
func checkDestinationCaller(message *types.Message, from string) error {
	if bytes.Equal(message.DestinationCaller, zeroByteArray) {
		return nil
	}
	bech32Prefix := sdk.GetConfig().GetBech32AccountAddrPrefix()
	destinationCaller, err := bech32.ConvertAndEncode(bech32Prefix, message.DestinationCaller[12:])
	if err != nil {
		return errors.Wrapf(types.ErrReceiveMessage, "unable to encode destination caller %s: %s", from, err)
	}
	if destinationCaller != from {
		return errors.Wrapf(types.ErrReceiveMessage, "incorrect destination caller: %s, sender: %s", destinationCaller, from)
	}
	return nil
}
'''
nr = rs.replace(caller, '\t// validate destination caller\n\tif err := checkDestinationCaller(message, msg.From); err != nil {\n\t\treturn nil, err\n\t}\n\n') + helper
mk('C02+C03+C04-receive-caller-helper', r, rs, nr)

mk('C03+C04-receive-messages-and-logging', r,
   'return nil, errors.Wrap(types.ErrReceiveMessage, "no attesters found")', 'return nil, errors.Wrap(types.ErrReceiveMessage, "attester set is empty")',
   r, 'return nil, errors.Wrapf(types.ErrReceiveMessage, "nonce already used")', 'return nil, errors.Wrapf(types.ErrReceiveMessage, "nonce %d of domain %d already used", message.Nonce, message.SourceDomain)',
   r, '\t// mark nonce as used\n', '\tk.Logger().Debug("receiving message", "domain", message.SourceDomain, "nonce", message.Nonce)\n\t// mark nonce as used\n')

d = K + 'msg_server_deposit_for_burn.go'
mk('C05+C06+C08+C12+C14-deposit-reorder-and-inline', d,
   '\tpaused, _ := k.GetBurningAndMintingPaused(ctx)\n\tif paused.Paused {', '\tif paused, _ := k.GetBurningAndMintingPaused(ctx); paused.Paused {',
   d, '\tperMessageBurnLimit, found := k.GetPerMessageBurnLimit(ctx, strings.ToLower(burnToken))\n\tif found {\n\t\tif amount.GT(perMessageBurnLimit.Amount) {\n\t\t\treturn 0, errors.Wrap(types.ErrBurn, "cannot burn more than the maximum per message burn limit")\n\t\t}\n\t}',
   '\tif limit, ok := k.GetPerMessageBurnLimit(ctx, strings.ToLower(burnToken)); ok && amount.GT(limit.Amount) {\n\t\treturn 0, errors.Wrap(types.ErrBurn, "cannot burn more than the maximum per message burn limit")\n\t}',
   d, '\tmessageSender := make([]byte, 32)\n\tcopy(messageSender[12:], fromAccAddress)\n', '\tmessageSender := make([]byte, 32)\n\tcopy(messageSender[32-len(fromAccAddress):], fromAccAddress)\n' if False else '\tsenderPadded := make([]byte, 32)\n\tcopy(senderPadded[12:], fromAccAddress)\n',
   d, 'MessageSender: messageSender,', 'MessageSender: senderPadded,')

mk('C05+C06+C08-deposit-lowered-once', d,
   '\t// check if amount is greater than configured', '\tloweredToken := strings.ToLower(burnToken)\n\t// check if amount is greater than configured',
   d, 'k.GetPerMessageBurnLimit(ctx, strings.ToLower(burnToken))', 'k.GetPerMessageBurnLimit(ctx, loweredToken)',
   d, 'crypto.Keccak256([]byte(strings.ToLower(burnToken)))', 'crypto.Keccak256([]byte(loweredToken))')

# ---- admin handlers and accessors
mk('C10+C11+C15-updateowner-style', K + 'msg_server_update_owner.go', 'previousOwner := k.GetOwner(ctx)\n\tif previousOwner != msg.From {', 'current := k.GetOwner(ctx)\n\tif msg.From != current {',
   K + 'msg_server_update_owner.go', 'PreviousOwner: previousOwner,', 'PreviousOwner: current,',
   K + 'msg_server_update_owner.go', '\t_, err := sdk.AccAddressFromBech32(msg.NewOwner)\n\tif err != nil {', '\tif _, err := sdk.AccAddressFromBech32(msg.NewOwner); err != nil {',
   K + 'msg_server_update_owner.go', '\terr = ctx.EventManager().EmitTypedEvent(&event)\n', '\terr := ctx.EventManager().EmitTypedEvent(&event)\n')
mk('C10+C11+C15+C19-roles-accessor-style', K + 'roles.go',
   '\tbz := runtime.KVStoreAdapter(k.storeService.OpenKVStore(ctx)).Get(types.OwnerKey)\n\tif bz == nil {', '\tkv := runtime.KVStoreAdapter(k.storeService.OpenKVStore(ctx))\n\tbz := kv.Get(types.OwnerKey)\n\tif len(bz) == 0 && bz == nil {')
mk('C18-keeper-immutable-field', K + 'keeper.go', '\t\tstoreService store.KVStoreService\n', '\t\tstoreService store.KVStoreService\n\t\tauthority    string\n')

# ---- harder: restructured loops, moved statements, direct writes
mk('C01+C20-verify-index-loop', att,
   '\t\tfor _, key := range publicKeys {\n\t\t\thexBz := common.FromHex(key.Attester)', '\t\tfor j := 0; j < len(publicKeys); j++ {\n\t\t\thexBz := common.FromHex(publicKeys[j].Attester)')
m = T + 'message.go'
mk('C05+C06+C16-message-bytes-direct', m,
   '\tversionBytes := make([]byte, VersionLen)\n\tbinary.BigEndian.PutUint32(versionBytes, msg.Version)\n', '\tbinary.BigEndian.PutUint32(result[VersionIndex:SourceDomainIndex], msg.Version)\n',
   m, '\tcopy(result[VersionIndex:SourceDomainIndex], versionBytes)\n', '',
   m, '\tnonceBytes := make([]byte, NonceBytesLen)\n\tbinary.BigEndian.PutUint64(nonceBytes, msg.Nonce)\n', '\tbinary.BigEndian.PutUint64(result[NonceIndex:SenderIndex], msg.Nonce)\n',
   m, '\tcopy(result[NonceIndex:SenderIndex], nonceBytes)\n', '')
mk('C02+C03+C04+C14-receive-mark-nonce-late', r,
   '\t// mark nonce as used\n\tk.SetUsedNonce(ctx, usedNonce)\n', '',
   r, '\tevent := types.MessageReceived{', '\t// mark nonce as used\n\tk.SetUsedNonce(ctx, usedNonce)\n\n\tevent := types.MessageReceived{')
e = K + 'msg_server_enable_attester.go'
mk('C10+C13+C15-enable-attester-helper', e,
   '\tattesterManager := k.GetAttesterManager(ctx)\n\tif attesterManager != msg.From {\n\t\treturn nil, errors.Wrapf(types.ErrUnauthorized, "this message sender cannot enable attesters")\n\t}\n',
   '\tif err := k.requireAttesterManager(ctx, msg.From); err != nil {\n\t\treturn nil, err\n\t}\n',
   e, 'func (k msgServer) EnableAttester(', 'func (k msgServer) requireAttesterManager(ctx sdk.Context, from string) error {\n\tif k.GetAttesterManager(ctx) != from {\n\t\treturn errors.Wrapf(types.ErrUnauthorized, "this message sender cannot enable attesters")\n\t}\n\treturn nil\n}\n\nfunc (k msgServer) EnableAttester(')
gg = 'x/cctp/genesis.go'
ggs = open('/repo/' + gg).read()
lim = '\tfor _, elem := range genState.PerMessageBurnLimitList {\n\t\tk.SetPerMessageBurnLimit(ctx, elem)\n\t}\n\n'
pairs = '\tfor _, elem := range genState.TokenPairList {\n\t\tk.SetTokenPair(ctx, elem)\n\t}\n\n'
mk('C17-initgenesis-loops-reordered', gg, ggs, ggs.replace(pairs, '').replace(lim, pairs + lim))
mk('C17-export-reordered', gg,
   '\tgenesis.Owner = k.GetOwner(ctx)\n\tgenesis.AttesterManager = k.GetAttesterManager(ctx)\n', '\tgenesis.AttesterManager = k.GetAttesterManager(ctx)\n\tgenesis.Owner = k.GetOwner(ctx)\n',
   gg, '\tgenesis.AttesterList = k.GetAllAttesters(ctx)\n\tgenesis.PerMessageBurnLimitList = k.GetAllPerMessageBurnLimits(ctx)\n', '\tgenesis.PerMessageBurnLimitList = k.GetAllPerMessageBurnLimits(ctx)\n\tgenesis.AttesterList = k.GetAllAttesters(ctx)\n')
mk('C03+C04-receive-string-compare', r, 'if !bytes.Equal(message.DestinationCaller, zeroByteArray) {', 'if string(message.DestinationCaller) != string(zeroByteArray) {')
sm = K + 'msg_server_send_message.go'
mk('C05+C06+C07-sendmessage-reorder', sm,
   '\tmessageSender := make([]byte, 32)\n\tfromAccAddress, err := sdk.AccAddressFromBech32(msg.From)', '\tfromAccAddress, err := sdk.AccAddressFromBech32(msg.From)',
   sm, '\tcopy(messageSender[12:], fromAccAddress)\n', '\tmessageSender := make([]byte, 32)\n\tcopy(messageSender[12:], fromAccAddress)\n')
sms = open('/repo/' + sm).read()
size = sms[sms.index('\t// check if message body is too long'):sms.index('\temptyByteArr := make([]byte, len(recipient))')]
rec = sms[sms.index('\temptyByteArr := make([]byte, len(recipient))'):sms.index('\t// serialize message')]
mk('C05+C08+C12-sendmessage-checks-swapped', sm, sms, sms.replace(size, '').replace(rec, rec + size))

# ---- an unexported helper gets another parameter (callers pass what it used to compute itself)
def sub_all(path, pairs):
    tr = []
    for a, b in pairs:
        tr += [path, a, b]
    return tr
mk('C05+C06+C07+C08+C09+C15-sendmessage-extra-param',
   sm, 'func (k msgServer) sendMessage(\n\tctx sdk.Context,\n', 'func (k msgServer) sendMessage(\n\tctx sdk.Context,\n\tversion uint32,\n',
   sm, '\t\tVersion:           types.MessageBodyVersion,\n\t\tSourceDomain:      types.NobleDomainId,', '\t\tVersion:           version,\n\t\tSourceDomain:      types.NobleDomainId,',
   sm, '\terr = k.sendMessage(\n\t\tctx,\n', '\terr = k.sendMessage(\n\t\tctx,\n\t\ttypes.MessageBodyVersion,\n',
   K + 'msg_server_send_message_with_caller.go', 'k.sendMessage(\n\t\tctx,\n', 'k.sendMessage(\n\t\tctx,\n\t\ttypes.MessageBodyVersion,\n',
   K + 'msg_server_replace_message.go', 'k.sendMessage(\n\t\tctx,\n', 'k.sendMessage(\n\t\tctx,\n\t\ttypes.MessageBodyVersion,\n')

# ---- module.go wiring restructured
mk('C17-validategenesis-restructured', 'x/cctp/module.go', '\treturn genesis.Validate()', '\tif err := genesis.Validate(); err != nil {\n\t\treturn err\n\t}\n\treturn nil')
